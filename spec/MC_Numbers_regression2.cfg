SPECIFICATION Spec
CONSTANTS
  Hack = {"pair"}
  MaxWrap = 3
  MaxRows = 7
  Emit = FALSE
INVARIANTS TrueNumbers UnifiedTrue Replay
CHECK_DEADLOCK FALSE
