----------------------------- MODULE MC_ShowFile -----------------------------
EXTENDS ShowFile, TLC, Json
CONSTANTS MaxLen, Sticky
VARIABLES lines, caller
vars == <<lines, caller>>
Init == lines = <<>> /\ caller \in Callers
Next == Len(lines) < MaxLen /\ \E c \in Classes : lines' = Append(lines, c) /\ UNCHANGED caller
Spec == Init /\ [][Next]_vars
\* regression config (Sticky = FALSE): the show-file state is left on an "inner" line - as if the hunk-line handler
\* claimed " x" / "-x" without looking at the state - and the rest of the file comes out unpainted
StepR(st, c) == IF ~Sticky /\ c = "inner" /\ st = "GitShowFile" THEN [st |-> "Unknown2", row |-> "raw"] ELSE StepS(st, caller, c)
RECURSIVE RunR(_, _, _)
RunR(ls, st, i) == IF i > Len(ls) THEN <<>>
                   ELSE LET r == IF st = "Unknown2" THEN [st |-> st, row |-> "raw"] ELSE StepR(st, ls[i]) IN <<r.row>> \o RunR(ls, r.st, i + 1)
R == RunR(lines, "Unknown", 1)
\* every class sequence of the bound, once per caller, for the replay into the binary
EmitAll == Len(lines) >= 1 => PrintT(<<"REPLAY", ToJson([lines |-> lines, caller |-> caller])>>)
Laws == FileShown(lines, caller, R) /\ PassThrough(lines, caller, R) /\ PrefixShown(lines, caller, R)
=============================================================================
