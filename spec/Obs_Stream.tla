----------------------------- MODULE Obs_Stream -----------------------------
(* Property-level specification of delta as a stream transformer, in observable terms    *)
(* only: which rows the output must contain for a given input history, in which order.   *)
(* Independent of Impl_Stream: nothing here mentions buffers, handlers or states.         *)
(*                                                                                        *)
(* C01  every hunk line is one row, in input order, inside its section                    *)
(* C04  text outside constructs is one raw row, in place                                  *)
(* C10  a section's rows depend on that section only                                      *)
(* C11  rows appear with bounded lag and are never revised                                *)
(* C14  one file header per section (right files, right label), one hunk header per hunk *)
EXTENDS Naturals, Sequences, FiniteSets

Row(t, k, d) == [t |-> t, k |-> k, d |-> d]

BodyC == {"minus", "plus", "zero"}
\* a line that opens a file section: git's "diff" line, diff -ru's title line, or (plain diff -u
\* without title lines) the "--- " line of the next file
IsStart(l) == l.c \in {"diff", "du", "sublog", "onlyin"} \/ l.kd = "dufile"
Boundaryish(l) == IsStart(l) \/ l.c = "commit"
\* lines whose text looks like a header but which are hunk lines (diff -u): removed "-- x", added "++ x"
HunkC(c) == IF c = "minus3" THEN "minus" ELSE IF c = "plus3" THEN "plus" ELSE c
SecTemplateLen(kd) ==
  CASE kd = "mod" -> 3 [] kd = "add" -> 4 [] kd = "addempty" -> 2 [] kd = "del" -> 4 [] kd = "rename" -> 3
    [] kd = "renmod" -> 6 [] kd = "copy" -> 3 [] kd = "modeonly" -> 2 [] kd = "modemod" -> 5 [] kd = "bin" -> 2 [] kd = "modebin" -> 4 [] kd = "renmode" -> 5
    [] kd = "binadd" -> 3 [] kd = "binx" -> 2 [] kd = "renbin" -> 5 [] kd = "cc" -> 3 [] kd = "subshort" -> 6 [] kd \in {"subdel", "subadd"} -> 6 [] OTHER -> 0
SecHasHunks(kd) == kd \in {"mod", "add", "del", "renmod", "modemod", "cc"}

\* What the one file header of a section must say: <<old, new, label, mode, binary>>
\* (0 = /dev/null side; mode 2 = "mode changed" must be reported)
WantHeader(l) ==
  LET f == l.f g == l.g kd == l.kd IN
  CASE kd \in {"mod", "bare", "cc", "subshort"} -> <<f, f, "modified", 0, FALSE>>
    [] kd = "sublog"               -> <<f, f, "submodule", 0, FALSE>>
    [] kd = "onlyin"               -> <<f, f, "onlyin", 0, FALSE>>      \* diff -r: file on one side only
    [] kd \in {"add", "addempty", "subadd"}  -> <<0, f, "added", 0, FALSE>>
    [] kd \in {"del", "subdel"}    -> <<f, 0, "removed", 0, FALSE>>
    [] kd \in {"rename", "renmod"} -> <<f, g, "renamed", 0, FALSE>>
    [] kd = "renmode"              -> <<f, g, "renamed", 2, FALSE>>
    \* (a renamed binary file with changes: that it is binary is said by the header or by the "Binary files" line
    \* shown as it stands - see BinaryReported in Trace_Stream; the descriptor's last field is not compared)
    [] kd = "renbin"               -> <<f, g, "renamed", 0, FALSE>>
    [] kd = "modebin"              -> <<f, f, "modified", 2, TRUE>>
    [] kd = "copy"                 -> <<f, g, "copied", 0, FALSE>>
    [] kd \in {"modeonly", "modemod"} -> <<f, f, "modified", 2, FALSE>>
    [] kd = "bin"                  -> <<f, f, "modified", 0, TRUE>>
    [] kd = "binadd"               -> <<0, f, "added", 0, TRUE>>
    [] kd = "binx"                 -> <<f, g, "comparing", 0, TRUE>>     \* (not demanded: see RowsOf)

\* diff -u / diff -ru sections: both paths are shown ("comparing" form)
RECURSIVE FirstOf(_, _, _)
FirstOf(h, j, cls) == IF j > Len(h) THEN 0 ELSE IF h[j].c = cls THEN j ELSE FirstOf(h, j + 1, cls)
WantHeaderAt(h, k) ==
  IF h[k].kd \in {"du", "dufile"}
  THEN LET m == IF h[k].c = "mmm" THEN k ELSE FirstOf(h, k, "mmm") p == FirstOf(h, k, "ppp")
       IN <<h[m].f, h[p].f, "comparing", 0, FALSE>>
  ELSE WantHeader(h[k])

\* the file whose name a hunk belongs to (and whose language colours it): the section's new path, or
\* the old one for a deleted file
RECURSIVE SecStart(_, _)
SecStart(h, k) == IF k = 0 \/ IsStart(h[k]) THEN k ELSE SecStart(h, k - 1)
HunkFile(h, k) == LET d == WantHeaderAt(h, SecStart(h, k)) IN IF d[2] = 0 THEN d[1] ELSE d[2]
\* C15: each hunk line is highlighted in the language of its own file's name (sy: <<k, file id>> pairs)
LanguageByName(h, sy) == \A i \in DOMAIN sy : SecStart(h, sy[i][1]) > 0 => sy[i][2] = HunkFile(h, sy[i][1])

\* index one past the last line of the section that starts at i
RECURSIVE SecEnd(_, _)
SecEnd(h, j) == IF j > Len(h) \/ Boundaryish(h[j]) THEN j ELSE SecEnd(h, j + 1)

\* the section starting at the "diff" line i is complete in h (all header lines, and a body
\* line in every hunk if the kind has hunks)
SecComplete(h, i) ==
  LET e == SecEnd(h, i + 1) kd == h[i].kd n == SecTemplateLen(kd) IN
  IF kd \in {"du", "dufile"}
  THEN \E j \in i..(e - 1) : h[j].c = "ppp" /\ j + 2 < e + 0 /\ h[j + 1].c = "hh"     \* has --- +++ and a hunk with a line
  ELSE
  /\ e - i - 1 >= n
  /\ SecHasHunks(kd) => /\ e - i - 1 >= n + 2
                        /\ \A j \in (i + 1)..(e - 1) : h[j].c = "hh" => j + 1 < e /\ h[j + 1].c \in BodyC

\* a hunk header must be shown iff its hunk has a line
HunkShown(h, k) == k < Len(h) /\ ~Boundaryish(h[k + 1]) /\ h[k + 1].c \notin {"hh", "subm"}   \* (a submodule's two commit lines are shown as one row)

\* is line k inside a hunk (after a hunk header of the current section)?
RECURSIVE InHunk(_, _)
InHunk(h, k) == IF k = 0 \/ Boundaryish(h[k]) THEN FALSE
                ELSE IF h[k].c = "hh" THEN TRUE ELSE InHunk(h, k - 1)
\* is line k inside a file section's header block (after "diff", before any hunk)?
RECURSIVE InHeader(_, _)
InHeader(h, k) == IF k = 0 \/ h[k].c \in {"commit", "hh"} THEN FALSE
                  ELSE IF IsStart(h[k]) THEN TRUE ELSE InHeader(h, k - 1)

\* ---- merge-conflict regions (combined diffs): the region that ends at line k ----
ConfMarks == {"m_ours", "m_anc", "m_theirs", "m_end"}
RECURSIVE RegionStart(_, _)
RegionStart(h, k) == IF k = 0 \/ h[k].c = "m_ours" THEN k ELSE RegionStart(h, k - 1)
\* phase of line j inside a region: the last marker at or before it
RECURSIVE PhaseOf(_, _)
PhaseOf(h, j) == IF h[j].c \in ConfMarks THEN h[j].c ELSE PhaseOf(h, j - 1)
Part(h, a, k, mark) == SelectSeq([j \in 1..(k - a - 1) |-> a + j],
                                 LAMBDA j : h[j].c \notin ConfMarks /\ PhaseOf(h, j) = mark)
\* a conflict region is shown as two comparisons against the common ancestor
ConflictRows(h, k) ==
  LET a == RegionStart(h, k)
      ours == Part(h, a, k, "m_ours") anc == Part(h, a, k, "m_anc") theirs == Part(h, a, k, "m_theirs")
      rows(t, ks) == [i \in 1..Len(ks) |-> Row(t, ks[i], <<>>)]
  IN << Row("bar", k, <<>>), Row("mergeHdr", k, <<>>) >> \o rows("minus", anc) \o rows("plus", ours)
     \o << Row("mergeHdr", k, <<>>) >> \o rows("minus", anc) \o rows("plus", theirs) \o << Row("bar", k, <<>>) >>
RECURSIVE InConflict(_, _)
\* is line k inside a conflict region that has not been closed yet?
InConflict(h, k) == IF k = 0 \/ Boundaryish(h[k]) \/ h[k].c \in {"hh", "m_end"} THEN FALSE
                    ELSE IF h[k].c = "m_ours" THEN TRUE ELSE InConflict(h, k - 1)

\* Rows that line k of history h contributes, in place.
RowsOf(h, k) ==
  LET c == h[k].c IN
  CASE c = "m_end" -> ConflictRows(h, k)
    [] c \in {"m_ours", "m_anc", "m_theirs", "cin"} -> << >>
    [] c = "commit" -> << Row("commit", k, <<>>) >>
    \* (a section that is cut off before it is complete may or may not get its header)
    \* two unrelated binary files compared (--no-index): the "Binary files a/x and b/y differ" line says it all; it
    \* must be shown, a header may be
    [] IsStart(h[k]) /\ h[k].kd = "binx" -> << Row("fileHdrOpt", k, <<>>) >>
    [] c = "binary" /\ SecStart(h, k) > 0 /\ h[SecStart(h, k)].kd = "binx" -> << Row("raw", k, <<>>) >>
    [] c = "binary" /\ SecStart(h, k) > 0 /\ h[SecStart(h, k)].kd = "renbin" -> << Row("rawopt", k, <<>>) >>
    \* diff -r: a binary file has no section of its own, its one line reports it
    [] c = "binary" /\ h[k].kd = "dubin" -> << Row("raw", k, <<>>) >>
    [] IsStart(h[k]) -> IF SecComplete(h, k) THEN << Row("fileHdr", k, WantHeaderAt(h, k)) >>
                        ELSE << Row("fileHdrOpt", k, <<>>) >>
    [] c = "hh"     -> IF HunkShown(h, k) THEN << Row("hunkHdr", k, <<>>) >> ELSE << >>
    [] HunkC(c) \in BodyC -> << Row(HunkC(c), k, <<>>) >>
    [] c = "nonl"   -> << Row("raw", k, <<>>) >>
    [] c = "subc" -> << Row("raw", k, <<>>) >>
    [] c = "subp" -> IF k > 1 /\ h[k - 1].c = "subm" THEN << Row("subshort", k, <<>>) >> ELSE << Row("plus", k, <<>>) >>
    \* a "-Subproject commit" line that stands alone (a removed submodule; or the input ends here) is shown on its own
    [] c = "subm" -> IF k < Len(h) /\ h[k + 1].c = "subp" THEN << >> ELSE << Row("subgone", k, <<>>) >>
    \* (a diffstat line is free text unless relative paths are requested: then its path is rewritten, see Trace_Stream)
    [] c \in {"other", "blank", "stat"} -> \* inside a header block the statement neither demands nor forbids the row
                                   << Row(IF InHeader(h, k - 1) THEN "rawopt" ELSE "raw", k, <<>>) >>
    [] OTHER        -> << >>

\* C02 (--color-only): one output row per input line, in input order.  (A hunk header that no hunk line follows
\* is not something git hands over; nothing is demanded for it.)
COLines(h, rows) ==
  LET want == SelectSeq([k \in 1..Len(h) |-> k], LAMBDA k : h[k].c # "hh" \/ (k < Len(h) /\ ~Boundaryish(h[k + 1]) /\ h[k + 1].c # "hh"))
  IN [i \in DOMAIN rows |-> rows[i].k] = want

RECURSIVE ExpFrom(_, _)
ExpFrom(h, k) == IF k > Len(h) THEN << >> ELSE RowsOf(h, k) \o ExpFrom(h, k + 1)
Expected(h) == ExpFrom(h, 1)

Optional(r) == r.t \in {"rawopt", "fileHdrOpt"}
BaseTag(t) == IF t = "rawopt" THEN "raw" ELSE IF t = "fileHdrOpt" THEN "fileHdr" ELSE t
Required(rows) == SelectSeq(rows, LAMBDA r : ~Optional(r))

\* Comparison that ignores the descriptor where Obs leaves it open (<<>>)
RowOK(want, got) == want.t = got.t /\ want.k = got.k /\ (want.d = <<>> \/ want.d = got.d)
SameRows(want, got) == Len(want) = Len(got) /\ \A i \in DOMAIN want : RowOK(want[i], got[i])
\* the same, with optional wanted rows that may be absent
RECURSIVE MatchOpt(_, _, _, _)
MatchOpt(want, got, i, j) ==
  IF i > Len(want) THEN j > Len(got)
  ELSE IF j <= Len(got) /\ BaseTag(want[i].t) = got[j].t /\ want[i].k = got[j].k
             /\ (want[i].d = <<>> \/ want[i].d = got[j].d) THEN MatchOpt(want, got, i + 1, j + 1)
  ELSE IF Optional(want[i]) THEN MatchOpt(want, got, i + 1, j)
  ELSE FALSE
SameRowsOpt(want, got) == MatchOpt(want, got, 1, 1)

(* C11.  `seen` = rows already written when k lines have been consumed.  Lines not yet   *)
(* represented must be the open run of removed/added lines at the end of the input, at   *)
(* most B+1 of each kind; header rows may lag as the statement allows (file header until *)
(* the section's first hunk or its end, hunk header until the hunk's first line).        *)
Represented(seen, k) == \E i \in DOMAIN seen : seen[i].k = k
LagOK(h, seen, B) ==
  \* the statement speaks about prefixes that end inside a hunk (or in plain text); a prefix that
  \* ends in a header line is not constrained beyond PrefixStable
  (Len(h) > 0 /\ h[Len(h)].c \in BodyC \cup {"minus3", "plus3", "nonl", "other", "blank", "commit"} /\ ~InConflict(h, Len(h))) =>
  LET pend == {k \in DOMAIN h : h[k].c \in BodyC \cup {"minus3", "plus3", "nonl", "other", "blank", "commit"}
                                /\ Required(RowsOf(h, k)) # <<>> /\ ~Represented(seen, k)} IN
  /\ \A k \in pend : HunkC(h[k].c) \in {"minus", "plus"}
  /\ \A k \in pend : \A j \in k..Len(h) : HunkC(h[j].c) \in {"minus", "plus"}
  /\ Cardinality({k \in pend : HunkC(h[k].c) = "minus"}) <= B + 1
  /\ Cardinality({k \in pend : HunkC(h[k].c) = "plus"}) <= B + 1
IsPrefixOf(a, b) == Len(a) <= Len(b) /\ \A i \in DOMAIN a : a[i] = b[i]
=============================================================================
