SPECIFICATION Spec
CONSTANTS
  N = 3
  Cap = 2
  Quit = 1
  Stay = FALSE
  WaitsForPager = TRUE
  RetriesShort = TRUE
  RetriesEINTR = TRUE
INVARIANTS Quiet NoEarlyExit AllDelivered NothingInvented LogOrder Emit
PROPERTY Terminates
CHECK_DEADLOCK FALSE
