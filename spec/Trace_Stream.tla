---------------------------- MODULE Trace_Stream ----------------------------
(* Trace validation of the real binary's output against Obs_Stream (C01 C04 C14, and the *)
(* per-run half of C02/C08/C10).  One event per run:                                      *)
(*   [run, cfg, lines, rows, code, stderr]                                                *)
(*   cfg   = [keep (markers kept), tabs, colorOnly, buf, hhFile, rel, wd (word-diff mode), commitRaw] *)
(*   lines = input history: [c, f, g, kd, pre, pay, bid]  (pre/pay: code points; bid: id *)
(*           of the line's bytes after the normalisations C04 permits)                    *)
(*   rows  = observed output rows: [t, vis, bid, fs, lab, mode, bin, frag]                *)
(*           t tag read off the reserved styles ("blank"/"deco" = decoration rows),       *)
(*           vis visible code points of the code part, bid id of the row's bytes,         *)
(*           fs file ids named (in order), fp ids whose full path is shown, lab label token, frag hunk-fragment token      *)
(* The monitor consumes every event; a run that breaks a law is recorded in `failed`.     *)
EXTENDS Obs_Stream, Json, IOUtils, TLC

Rec == ndJsonDeserialize(IOEnv.TRACE)

VARIABLES l, failed, drift
vars == <<l, failed, drift>>

TAB == 9
SP == 32
StatWidth == 48       \* --diff-stat-align-width (default)
RECURSIVE Expand(_, _, _)
Expand(p, w, i) == IF i > Len(p) THEN <<>>
                   ELSE (IF p[i] = TAB /\ w > 0 THEN [j \in 1..w |-> SP] ELSE <<p[i]>>) \o Expand(p, w, i + 1)

\* In a combined diff the prefix columns are always shown; inside a conflict region they are removed (a
\* kept marker is then the comparison's own '-' or '+').
ShowsPre(line, cfg) == (HunkC(line.c) \in BodyC \/ line.c = "subp") /\ (cfg.keep \/ line.comb)     \* ("subp": an added submodule's line is an added line)
WantVisLen(line, cfg) == (IF ShowsPre(line, cfg) THEN Len(line.pre) ELSE IF line.c = "cin" /\ cfg.keep THEN 1 ELSE 0) + Len(line.pay)
WantVis(line, cfg) == (IF ShowsPre(line, cfg) THEN line.pre ELSE <<>>) \o Expand(line.pay, cfg.tabs, 1)
WantVisAs(line, cfg, tag) ==
  IF line.c = "cin" THEN (IF cfg.keep THEN <<IF tag = "minus" THEN 45 ELSE 43>> ELSE <<>>) \o Expand(line.pay, cfg.tabs, 1)
  ELSE WantVis(line, cfg)

\* The implementation-shaped model, run on the same history (drift report, never a verdict)
IS(b) == INSTANCE Impl_Stream WITH Modes <- {}, Buf <- b, ColorOnly <- FALSE, Fixes <- {"D1", "D14", "D2", "D18", "D19", "D20", "D21", "D23", "D24", "D25"}
RECURSIVE ImplRun(_, _, _, _)
ImplRun(b, h, st, k) == IF k > Len(h) THEN st ELSE ImplRun(b, h, IS(b)!Step(st, k, h[k]), k + 1)
ImplRows(e) == IS(e.cfg.buf)!Finish(ImplRun(e.cfg.buf, e.lines, IS(e.cfg.buf)!InitS, 1)).w
BlankSource(e, r) == LET ln == e.lines[r.k] IN
                       r.t \in BodyC \cup {"raw"} /\ WantVisLen(ln, e.cfg) = 0

\* the files a header must name, in order, from the descriptor <<old, new, label, mode, bin>>
WantFiles(d) == IF d[3] = "comparing" THEN <<d[1], d[2]>> ELSE IF d[1] = d[2] THEN <<d[1]>> ELSE IF d[2] = 0 THEN <<d[1]>> ELSE IF d[1] = 0 THEN <<d[2]>>
                ELSE <<d[1], d[2]>>


\* does observed row g satisfy what is wanted (w: a Row of Obs_Stream) for history h?
RowMatches(h, cfg, w, g) ==
  LET line == h[w.k] IN
  CASE cfg.wd /\ w.t \in BodyC ->
            \* word-diff mode (the calling git was given --word-diff / --color-words): a hunk line has no marker column;
            \* it is shown whole, as it came, tabs expanded
            LET want == line.pre \o Expand(line.pay, cfg.tabs, 1) IN
            /\ g.t \in {"raw", "styled", "blank", "deco"}      \* (unpainted; a row of blanks or rule characters reads as decoration)
            /\ g.vis = want \/ (g.vis = <<>> /\ \A i \in DOMAIN want : want[i] = SP)     \* (a row of blanks reads as an empty row)
    [] w.t \in {"raw", "rawopt"} /\ line.c = "stat" /\ cfg.rel ->
            \* diffstat line under --relative-paths: the path as seen from the user's directory (rp), filled to the
            \* alignment width, then the rest of the line from the bar on (sfx)
            g.vis = <<SP>> \o line.rp \o [i \in 1..(IF Len(line.rp) < StatWidth THEN StatWidth - Len(line.rp) ELSE 0) |-> SP] \o line.sfx
    [] w.t \in {"raw", "rawopt"} -> \/ g.bid = line.bid   \* whatever it looks like: the same bytes
                                    \* an empty line: an empty row (in a combined hunk it is an unchanged line)
                                    \/ (line.c = "blank" /\ g.t \in {"blank", "zero"} /\ g.vis = <<>>)
    \* (commit-style raw - the default -: the commit line is written as it came)
    [] w.t = "commit" /\ cfg.commitRaw -> g.bid = line.bid
    [] w.t = "commit"  -> g.t = "commit" /\ g.vis = line.pay
    [] w.t \in BodyC   -> /\ g.t = w.t \/ (g.t = "blank" /\ WantVisAs(line, cfg, w.t) = <<>>)
                          /\ g.vis = WantVisAs(line, cfg, w.t)
    [] w.t = "subshort" -> g.vis = SubSeq(h[w.k - 1].pay, 1, 12) \o <<46, 46>> \o SubSeq(line.pay, 1, 12)
    [] w.t = "subgone" -> g.vis = SubSeq(line.pay, 1, 12) \o <<46, 46>>
    [] w.t = "bar"     -> g.t = "deco"
    [] w.t = "mergeHdr" -> g.t = "mergeHdr"
    [] w.t = "hunkHdr" -> /\ g.t = "hunkHdr" /\ g.frag = w.k
                          /\ cfg.hhFile => g.fp = <<HunkFile(h, w.k)>>   \* C05/C14: the hunk's own file
    [] w.t = "fileHdrOpt" -> g.t = "fileHdr"
    [] w.t = "fileHdr" -> /\ g.t = "fileHdr"
                          \* ("Only in <dir>: <name>" shows directory and name apart: the name identifies the file)
                          /\ w.d # <<>> => /\ IF w.d[3] = "onlyin" THEN g.fs = <<w.d[1]>> ELSE g.fp = WantFiles(w.d)
                                           /\ g.lab = (CASE w.d[3] = "comparing" -> "modified" [] w.d[3] \in {"submodule", "onlyin"} -> ""
                                                          [] OTHER -> w.d[3])
                                           /\ g.mode = (w.d[4] = 2)
                                           /\ (line.kd # "renbin" => g.bin = w.d[5])

IsHeader(w) == w.t \in {"fileHdr", "fileHdrOpt", "hunkHdr", "commit", "mergeHdr", "bar"}
Skippable(g) == g.t \in {"blank", "deco"}

\* Walk wanted rows (index i) and observed rows (index j).  Decoration rows are allowed only
\* next to a header row.  Result: <<0,0>> accepted, else <<i, j>> of the first disagreement.
RECURSIVE Match(_, _, _, _, _, _)
Match(h, cfg, want, got, i, j) ==
  IF i > Len(want) THEN
     IF j > Len(got) THEN <<0, 0>>
     ELSE IF Skippable(got[j]) /\ i > 1 /\ IsHeader(want[i - 1]) THEN Match(h, cfg, want, got, i, j + 1)
     ELSE <<i, j>>
  ELSE IF j > Len(got) THEN
     IF Optional(want[i]) THEN Match(h, cfg, want, got, i + 1, j) ELSE <<i, j>>
  ELSE IF RowMatches(h, cfg, want[i], got[j]) THEN Match(h, cfg, want, got, i + 1, j + 1)
  ELSE IF Skippable(got[j]) /\ (IsHeader(want[i]) \/ (i > 1 /\ IsHeader(want[i - 1])))
       THEN Match(h, cfg, want, got, i, j + 1)
  ELSE IF Optional(want[i]) THEN Match(h, cfg, want, got, i + 1, j)
  ELSE <<i, j>>

\* C14 "reports ... binary files": a renamed binary file with changes is reported as binary by its header or by
\* its "Binary files ... differ" line shown as it stands (first input line for which neither holds, 0 if none)
BinaryUnreported(e) ==
  LET bad == {k \in DOMAIN e.lines :
                /\ e.lines[k].c = "binary" /\ SecStart(e.lines, k) > 0 /\ e.lines[SecStart(e.lines, k)].kd = "renbin"
                /\ ~\E j \in DOMAIN e.rows : \/ e.rows[j].bid = e.lines[k].bid
                                              \/ (e.rows[j].t = "fileHdr" /\ e.rows[j].bin /\ e.lines[k].g \in {e.rows[j].fs[i] : i \in DOMAIN e.rows[j].fs})}
  IN IF bad = {} THEN 0 ELSE CHOOSE k \in bad : \A k2 \in bad : k <= k2

Judge(e) ==
  IF e.code # 0 \/ e.stderr # 0 THEN [why |-> "exit", i |-> e.code, j |-> e.stderr, wt |-> "", gt |-> ""]
  ELSE LET want == Expected(e.lines)
           m == Match(e.lines, e.cfg, want, e.rows, 1, 1)
       IN IF m = <<0, 0>> /\ ~e.cfg.colorOnly /\ BinaryUnreported(e) # 0
          THEN [why |-> "binary-unreported", i |-> BinaryUnreported(e), j |-> 0, wt |-> "fileHdr", gt |-> "fileHdr"]
          ELSE IF m = <<0, 0>> THEN [why |-> "", i |-> 0, j |-> 0, wt |-> "", gt |-> ""]
          ELSE [why |-> "rows", i |-> m[1], j |-> m[2],
                wt |-> IF m[1] <= Len(want) THEN want[m[1]].t ELSE "end",
                gt |-> IF m[2] <= Len(e.rows) THEN e.rows[m[2]].t ELSE "end"]

Drifts(e) ==
  IF e.cfg.colorOnly \/ e.cfg.wd \/ e.code # 0 THEN FALSE
  ELSE LET pr == ImplRows(e)
           pt == [i \in DOMAIN pr |-> pr[i].t]
           \* (rules are decoration rows on the observed side; passed-through text may carry colours of its own)
           p2 == SelectSeq(pr, LAMBDA r : ~BlankSource(e, r) /\ r.t # "bar")
           o2 == SelectSeq(e.rows, LAMBDA r : r.t \notin {"blank", "deco"} /\ ~(r.t \in BodyC /\ r.vis = <<>>))
           Norm(t) == IF t \in {"styled", "raw", "rawopt"} THEN "raw" ELSE IF t = "subgone" THEN "minus" ELSE IF t = "commit" /\ e.cfg.commitRaw THEN "raw" ELSE t   \* (the lone old commit is painted in the minus style)
       IN [i \in DOMAIN p2 |-> Norm(p2[i].t)] # [i \in DOMAIN o2 |-> Norm(o2[i].t)]

Init == l = 1 /\ failed = <<>> /\ drift = <<>>
Next == /\ l <= Len(Rec)
        /\ l' = l + 1
        /\ LET e == Rec[l] v == Judge(e) IN
             /\ failed' = IF v.why = "" THEN failed ELSE Append(failed, [run |-> e.run] @@ v)
             /\ drift' = IF Drifts(e) THEN Append(drift, e.run) ELSE drift
Spec == Init /\ [][Next]_vars

Done == l <= Len(Rec) \/ (PrintT(<<"DRIFT", ToJson(drift)>>) /\ PrintT(<<"VERDICT", ToJson(failed)>>))
=============================================================================
