------------------------------ MODULE MC_Wrap ------------------------------
(* All texts up to MaxG graphemes over widths {1, 2}, every cut into at most 3 sections,    *)
(* panel widths and row limits: the laws of Wrap, and agreement of any two cuts (LockStep:   *)
(* a disagreement is the panic "syntax and diff wrapping differs").                          *)
EXTENDS Wrap, TLC, Json
CONSTANTS MaxG, Widths, Limits
VARIABLES c, done
vars == <<c, done>>
Texts(n) == UNION {[1..k -> {1, 2}] : k \in 0..n}
\* cuts of text t into sections at positions a <= b
Cut(t, a, b) == SelectSeq(<<SubSeq(t, 1, a), SubSeq(t, a + 1, b), SubSeq(t, b + 1, Len(t))>>, LAMBDA x : x # <<>>) \o <<NL>>
Cases == {[t |-> t, a |-> a, b |-> b, W |-> W, M |-> M] : t \in Texts(MaxG), a \in 0..MaxG, b \in 0..MaxG, W \in Widths, M \in Limits}
Init == c \in {x \in Cases : x.a <= x.b /\ x.b <= Len(x.t)} /\ done = FALSE
Next == ~done /\ done' = TRUE /\ UNCHANGED c
Spec == Init /\ [][Next]_vars
Fuel == 4 * MaxG + 8
R(sec) == WrapLine(sec, c.W, c.M, Fuel)
Mine == R(Cut(c.t, c.a, c.b))
One == R(Cut(c.t, Len(c.t), Len(c.t)))          \* the whole text as a single section
Terminates == Mine.terminated
LosslessAlways == Mine.terminated => Lossless(Cut(c.t, c.a, c.b), Mine)
Fits == Mine.terminated => RowsFit(Mine, c.W)
Symbols == (Mine.terminated /\ Mine.stop = "empty") => SymbolsRight(Mine)
LockStep == (Mine.terminated /\ One.terminated) => [i \in DOMAIN Mine.rows |-> Mine.rows[i]] = [i \in DOMAIN One.rows |-> One.rows[i]]
ProgressWhenRoomy == (Mine.terminated /\ c.W >= 3) => Progress(Mine)
Replay == done \/ c.a # Len(c.t) \/ PrintT(<<"REPLAY", ToJson([t |-> c.t, W |-> c.W, M |-> c.M, rows |-> One.rows])>>)
=============================================================================
