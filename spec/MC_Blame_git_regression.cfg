SPECIFICATION GSpec
CONSTANTS
  GitColoured = TRUE
  BlameFixed = FALSE
  NK = 3
  MaxLen = 6
  Palettes = {2, 3}
  ReplayLen = 4
INVARIANTS GTotal
CHECK_DEADLOCK FALSE
