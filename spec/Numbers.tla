------------------------------ MODULE Numbers ------------------------------
(* C05, implementation-shaped: the line-number counters of LineNumbersData and who moves them   *)
(* (src/features/line_numbers.rs linenumbers_and_styles, src/paint.rs paint_line, and the        *)
(* compensation at the end of the row loop of src/features/side_by_side.rs                       *)
(* paint_minus_and_plus_lines_side_by_side, marked HACK there), against the true numbers.        *)
(*                                                                                                *)
(* The unit is an output row.  A row is [v, l, r]:                                                *)
(*   v  "pm"   a row of a removed/added block in side-by-side view                                *)
(*      "z"    a row of an unchanged line in side-by-side view (both panels show the same line)    *)
(*      "u"    a row of the unified view (l says what it shows, r = kind of line)                  *)
(*   l, r  what the left / right panel shows: "first" the first row of a line, "cont" a           *)
(*      continuation row of a wrapped line, "none" nothing (the line has no partner on that side)  *)
(*      unified: l \in {"first", "cont"}, r \in {"minus", "plus", "zero"}                           *)
EXTENDS Naturals, Sequences

CONSTANT Hack      \* the compensation: a subset of {"undo", "pair"} = which arms of the original three-armed match are
                   \* present (the pinned code has both); {"v2"} = the repaired scheme: the empty half of a row is
                   \* painted as a continuation row (no number, no increment) and the old-file counter moves when the
                   \* left panel shows the first row of a removed line
(* Each panel has a number field that may contain both placeholders ({nm} and {np}): a row shows four numbers,  *)
(* ll lr (left panel: old, new) and rl rr (right panel: old, new); 0 = blank.                                  *)

Dec(x) == IF x = 0 THEN 0 ELSE x - 1
\* linenumbers_and_styles(state, increment) on counters (L, R): <<minus number, plus number, L', R'>>, 0 = no number
LNS(st, inc, L, R) ==
  CASE st = "Minus" -> <<L, 0, IF inc THEN L + 1 ELSE L, R>>
    [] st = "Plus"  -> <<0, R, L, IF inc THEN R + 1 ELSE R>>
    [] st = "Zero"  -> <<L, R, IF inc THEN L + 1 ELSE L, IF inc THEN R + 1 ELSE R>>
    [] OTHER        -> <<0, 0, L, R>>            \* HunkMinusWrapped / HunkPlusWrapped / HunkZeroWrapped

\* one row: what the two number fields show and the counters afterwards
Step(row, L, R) ==
  IF row.v = "u" THEN
     LET st == IF row.l = "cont" THEN "Wrapped" ELSE CASE row.r = "minus" -> "Minus" [] row.r = "plus" -> "Plus" [] OTHER -> "Zero"
         a == LNS(st, TRUE, L, R)                     \* one call, both fields
     IN [ll |-> a[1], lr |-> a[2], rl |-> 0, rr |-> 0, L |-> a[3], R |-> a[4]]
  ELSE IF row.v = "z" THEN
     LET st == IF row.l = "cont" THEN "Wrapped" ELSE "Zero"
         a == LNS(st, FALSE, L, R)                    \* left panel: no increment, minus field only
         b == LNS(st, TRUE, a[3], a[4])               \* right panel: increments, plus field only
     IN [ll |-> a[1], lr |-> a[2], rl |-> b[1], rr |-> b[2], L |-> b[3], R |-> b[4]]
  ELSE
     LET mi == row.l # "none"   pi == row.r # "none"
         ls == IF row.l = "cont" THEN "MinusW" ELSE "Minus"      \* absent: HunkMinus(Unified, None)
         rs == IF row.r = "cont" THEN "PlusW" ELSE "Plus"
         \* paint_minus_or_plus_panel_line: an absent line is painted in the opposite state so that its field stays empty
         v2 == "v2" \in Hack
         a == LNS(IF mi THEN ls ELSE IF v2 THEN "Wrapped" ELSE "Plus", FALSE, L, R)
         b == LNS(IF pi THEN rs ELSE IF v2 THEN "Wrapped" ELSE "Minus", TRUE, a[3], a[4])
         L2 == IF v2 THEN (IF mi /\ ls = "Minus" THEN b[3] + 1 ELSE b[3])
               ELSE IF ls = "MinusW" /\ rs = "Plus" /\ mi /\ ~pi THEN (IF "undo" \in Hack THEN Dec(b[3]) ELSE b[3])
               ELSE IF ls = "MinusW" THEN b[3]
               ELSE IF mi /\ pi THEN (IF "pair" \in Hack THEN b[3] + 1 ELSE b[3])
               ELSE b[3]
     IN [ll |-> a[1], lr |-> a[2], rl |-> b[1], rr |-> b[2], L |-> L2, R |-> b[4]]

RECURSIVE Run(_, _, _, _)
Run(rows, i, L, R) == IF i > Len(rows) THEN <<>>
                      ELSE LET x == Step(rows[i], L, R) IN <<[ll |-> x.ll, lr |-> x.lr, rl |-> x.rl, rr |-> x.rr]>> \o Run(rows, i + 1, x.L, x.R)

\* ------------------------------- Obs ---------------------------------------------
StartsOld(row) == IF row.v = "u" THEN row.l = "first" /\ row.r \in {"minus", "zero"} ELSE row.l = "first"
StartsNew(row) == IF row.v = "u" THEN row.l = "first" /\ row.r \in {"plus", "zero"}
                  ELSE IF row.v = "z" THEN row.l = "first" ELSE row.r = "first"
RECURSIVE CountOld(_, _), CountNew(_, _)
CountOld(rows, i) == IF i = 0 THEN 0 ELSE CountOld(rows, i - 1) + (IF StartsOld(rows[i]) THEN 1 ELSE 0)
CountNew(rows, i) == IF i = 0 THEN 0 ELSE CountNew(rows, i - 1) + (IF StartsNew(rows[i]) THEN 1 ELSE 0)
\* the true numbers: a number only beside the first row of a line, old lines counted from L0, new from R0
TrueOld(rows, i, L0) == IF StartsOld(rows[i]) THEN L0 + CountOld(rows, i - 1) ELSE 0
TrueNew(rows, i, R0) == IF StartsNew(rows[i]) THEN R0 + CountNew(rows, i - 1) ELSE 0
\* Does what row i shows (x: [ll, lr, rl, rr]) agree with the truth?  The panel a line is in shows its number; an
\* unchanged line's numbers may be shown in either panel (each panel's format decides); the empty half of a row may
\* repeat the number of the line beside it or show nothing; a continuation row shows nothing anywhere.
\* fmt = <<lnm, lnp, rnm, rnp>>: which placeholders the left / right panel's number format contains (a number whose
\* placeholder is absent cannot be shown)
RowTrue(rows, i, L0, R0, x, fmt) ==
  LET o == TrueOld(rows, i, L0) n == TrueNew(rows, i, R0) r == rows[i]
      Is(shown, has, want) == shown = (IF has THEN want ELSE 0)
  IN
  IF r.v = "u" THEN x.ll = o /\ x.lr = n
  ELSE IF r.v = "z" THEN Is(x.ll, fmt[1], o) /\ Is(x.lr, fmt[2], n) /\ Is(x.rl, fmt[3], o) /\ Is(x.rr, fmt[4], n)
  ELSE /\ Is(x.ll, fmt[1], o) /\ Is(x.rr, fmt[4], n)
       /\ x.lr \in {0, n} /\ x.rl \in {0, o}
AllTrue(rows, L0, R0, shown, fmt) == Len(shown) = Len(rows) /\ \A i \in DOMAIN rows : RowTrue(rows, i, L0, R0, shown[i], fmt)
=============================================================================
