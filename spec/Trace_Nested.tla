---------------------------- MODULE Trace_Nested ----------------------------
(* C13, features enabled by features, to any depth: a feature list is read last-listed first, and each feature is followed  *)
(* by what it enables itself (pre-order) - Options!PrioList, here over a whole tree of custom features.  One event per       *)
(* configuration resolved by the real binary:                                                                               *)
(*   [run, top, kids, sets, shown]   top: the [delta] features list; kids: record A..E -> the `features = ...` list of      *)
(*   [delta "X"]; sets: the features whose section sets the option; shown: the feature whose value --show-config reports     *)
(*   ("" = the default).  (The harness generates trees: no feature is reachable twice.)                                      *)
EXTENDS Naturals, Sequences, TLC, Json, IOUtils
Rec == ndJsonDeserialize(IOEnv.TRACE)
VARIABLES l, failed
vars == <<l, failed>>
RECURSIVE Desc(_, _), PrioList(_, _)
Desc(e, f) == <<f>> \o PrioList(e, e.kids[f])
PrioList(e, s) == IF s = <<>> THEN <<>> ELSE Desc(e, s[Len(s)]) \o PrioList(e, SubSeq(s, 1, Len(s) - 1))
RECURSIVE First(_, _)
First(e, s) == IF s = <<>> THEN "" ELSE IF \E i \in DOMAIN e.sets : e.sets[i] = s[1] THEN s[1] ELSE First(e, Tail(s))
Want(e) == First(e, PrioList(e, e.top))
Init == l = 1 /\ failed = <<>>
Next == /\ l <= Len(Rec)
        /\ l' = l + 1
        /\ failed' = IF Rec[l].shown = Want(Rec[l]) THEN failed ELSE Append(failed, [run |-> Rec[l].run, want |-> Want(Rec[l])])
Spec == Init /\ [][Next]_vars
Done == l <= Len(Rec) \/ PrintT(<<"VERDICT", ToJson(failed)>>)
=============================================================================
