--------------------------- MODULE Trace_ColourMode ---------------------------
(* C13, an option that is spread over two flags: `light` and `dark` together say one thing, the colour mode (it selects   *)
(* the default syntax theme and the default styles).  A flag on the command line is the highest-priority source of that      *)
(* choice: whatever a gitconfig source says about the *other* flag must not count then (src/options/set.rs,                  *)
(* set__light__dark__syntax_theme__options consults gitconfig only when the command line is silent).  Without a command-line  *)
(* flag each of the two resolves like any boolean (override, file's [delta] section, enabled feature); when that makes both   *)
(* true the configuration contradicts itself and nothing is claimed.                                                         *)
(* One event per resolution by the real binary:                                                                              *)
(*   [run, cli, gcpL, gcpD, fileL, fileD, featL, featD, def, shown]   cli \in {"none", "light", "dark"}; the others            *)
(*   \in {"none", "true", "false"}; def: the mode when nothing is said (calibrated); shown \in {"light", "dark", "error"}       *)
EXTENDS Naturals, Sequences, TLC, Json, IOUtils
Rec == ndJsonDeserialize(IOEnv.TRACE)
VARIABLES l, failed
vars == <<l, failed>>
Res(g, f, t) == IF g # "none" THEN g = "true" ELSE IF f # "none" THEN f = "true" ELSE IF t # "none" THEN t = "true" ELSE FALSE
OK(e) == LET L == Res(e.gcpL, e.fileL, e.featL)  D == Res(e.gcpD, e.fileD, e.featD) IN
         IF e.cli # "none" THEN e.shown = e.cli
         ELSE IF L /\ D THEN TRUE
         ELSE IF L THEN e.shown = "light"
         ELSE IF D THEN e.shown = "dark"
         ELSE e.shown = e.def
Init == l = 1 /\ failed = <<>>
Next == /\ l <= Len(Rec)
        /\ l' = l + 1
        /\ failed' = IF OK(Rec[l]) THEN failed ELSE Append(failed, [run |-> Rec[l].run])
Spec == Init /\ [][Next]_vars
Done == l <= Len(Rec) \/ PrintT(<<"VERDICT", ToJson(failed)>>)
=============================================================================
