------------------------------ MODULE MC_DiffU ------------------------------
(* Design-level check of the stream model on plain `diff -u` / `diff -ru` input (Env_DiffU). *)
EXTENDS Naturals, Sequences, FiniteSets, TLC, Json
CONSTANTS NF, MaxLen, MaxHunks, MaxOld, MaxNew, Titled, Ambig, Buf, Fixes, ColorOnly, Modes, ReplayLen
VARIABLES hist, gs, s
E == INSTANCE Env_DiffU
I == INSTANCE Impl_Stream
O == INSTANCE Obs_Stream
vars == <<hist, gs, s>>
Init == hist = <<>> /\ gs = E!GInit /\ s = I!InitS
Next == E!GNext /\ s' = I!Step(s, Len(hist'), hist'[Len(hist')])
Spec == Init /\ [][Next]_vars
Final == I!Finish(s).w
Cex(name) == PrintT(<<"CEX", ToJson([inv |-> name, h |-> hist])>>) /\ FALSE
RowsOnceInOrder == O!SameRowsOpt(O!Expected(hist), Final) \/ Cex("RowsOnceInOrder")
LineForLine == ~ColorOnly \/ O!COLines(hist, Final) \/ Cex("LineForLine")
LanguageByName == O!LanguageByName(hist, I!Finish(s).sy) \/ Cex("LanguageByName")
Lag == O!LagOK(hist, s.w, Buf) \/ Cex("Lag")
PrefixStable == O!IsPrefixOf(s.w, Final) \/ Cex("PrefixStable")
Replay == Len(hist) = 0 \/ Len(hist) > ReplayLen \/ PrintT(<<"REPLAY", ToJson([h |-> hist, done |-> E!Complete(gs)])>>)
=============================================================================
