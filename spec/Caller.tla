------------------------------- MODULE Caller -------------------------------
(* The calling-process protocol of src/utils/process.rs: a background thread works out   *)
(* which command produced delta's input while the main thread may publish a command it   *)
(* launched itself and queries the result.  One action per critical section / hook point: *)
(*   b_compute  determine_calling_process() finished (outside the lock)                   *)
(*   b_lock     background thread holds the mutex                                         *)
(*   b_cs       ... has written its guess unless a known command was published; notifies  *)
(*   b_unlock   ... released the mutex                                                    *)
(*   m_enter / m_lock / m_cs / m_unlock   set_calling_process (publishes the known command) *)
(*   q_enter    calling_process() entered                                                 *)
(*   q_ret      Condvar::wait_while returned: mutex free and value not Pending             *)
(* State is a record so that the same guards/updates serve the model checker and the      *)
(* trace monitor.                                                                          *)
EXTENDS Naturals, Sequences, FiniteSets

CONSTANTS BgChecksSource,  \* TRUE: the background thread keeps a published value (the code as written)
          SetFirst         \* TRUE: the main thread publishes before its first query (`delta git ...`, `delta rg ...`)

InitC == [caller |-> "Pending", source |-> "GUESSED", lock |-> "free", pcb |-> "b0", pcm |-> "idle",
          set |-> FALSE, nq |-> 0, results |-> <<>>]

Labels == {"b_compute", "b_lock", "b_cs", "b_unlock", "m_enter", "m_lock", "m_cs", "m_unlock", "q_enter", "q_ret"}

Guard(s, a) ==
  CASE a = "b_compute" -> s.pcb = "b0"
    [] a = "b_lock"    -> s.pcb = "b1" /\ s.lock = "free"
    [] a = "b_cs"      -> s.pcb = "b2"
    [] a = "b_unlock"  -> s.pcb = "b3"
    [] a = "m_enter"   -> s.pcm = "idle" /\ ~s.set
    [] a = "m_lock"    -> s.pcm = "m1" /\ s.lock = "free"
    [] a = "m_cs"      -> s.pcm = "m2"
    [] a = "m_unlock"  -> s.pcm = "m3"
    [] a = "q_enter"   -> s.pcm = "idle" /\ (SetFirst => s.set)
    [] a = "q_ret"     -> s.pcm = "q1" /\ s.lock = "free" /\ s.caller # "Pending"
    [] OTHER -> FALSE

Update(s, a) ==
  CASE a = "b_compute" -> [s EXCEPT !.pcb = "b1"]
    [] a = "b_lock"    -> [s EXCEPT !.pcb = "b2", !.lock = "bg"]
    [] a = "b_cs"      -> [s EXCEPT !.pcb = "b3",
                                    !.caller = IF BgChecksSource /\ s.source = "KNOWN" THEN @ ELSE "Guess"]
    [] a = "b_unlock"  -> [s EXCEPT !.pcb = "bdone", !.lock = "free"]
    [] a = "m_enter"   -> [s EXCEPT !.pcm = "m1"]
    [] a = "m_lock"    -> [s EXCEPT !.pcm = "m2", !.lock = "main"]
    [] a = "m_cs"      -> [s EXCEPT !.pcm = "m3", !.caller = "Known", !.source = "KNOWN", !.set = TRUE]
    [] a = "m_unlock"  -> [s EXCEPT !.pcm = "idle", !.lock = "free"]
    [] a = "q_enter"   -> [s EXCEPT !.pcm = "q1", !.nq = @ + 1]
    [] a = "q_ret"     -> [s EXCEPT !.pcm = "idle",
                                    !.results = Append(@, [v |-> s.caller, afterSet |-> s.set])]

\* the value a hook logs at an action (what the real code reports there), "" if none
Value(s, a) == CASE a = "b_cs"  -> Update(s, a).caller
                 [] a = "m_cs"  -> "Known"
                 [] a = "q_ret" -> s.caller
                 [] OTHER -> ""

\* ---- properties (C20) ----
NeverPending(s) == \A i \in DOMAIN s.results : s.results[i].v # "Pending"
KnownWins(s)    == /\ \A i \in DOMAIN s.results : s.results[i].afterSet => s.results[i].v = "Known"
                   /\ (s.source = "KNOWN" => s.caller = "Known")
=============================================================================
