------------------------------ MODULE Trace_Sbs ------------------------------
(* C07: side-by-side view - correct panels, fixed geometry, lossless wrapping.            *)
(* One event per rendered file section:                                                    *)
(*   [run, W, limit, left, right, rows, code]                                              *)
(*   W      configured width;  limit  wrap-max-lines (-1 = unlimited)                       *)
(*   left   the lines the left panel must show, in order: [z, t]  (removed and unchanged    *)
(*          lines; z = identity of an unchanged line, 0 for removed; t = code points with   *)
(*          tabs expanded); right likewise (added and unchanged)                            *)
(*   rows   per output row: [ln, lt, lw, lx, lk, rn, rt, rw, rx, rk, col, width]             *)
(*          ln/rn gutter number (0 blank), lt/rt text of the panel without gutter, padding  *)
(*          and wrap symbols, lw/rw TRUE iff the panel ends in a wrap symbol, lx/rx TRUE    *)
(*          iff it ends in the truncation mark, lk/rk style kinds seen in the panel,        *)
(*          col display column where the right panel starts, width of the whole row         *)
EXTENDS Naturals, Sequences, FiniteSets, TLC, Json, IOUtils

Rec == ndJsonDeserialize(IOEnv.TRACE)
VARIABLES l, failed
vars == <<l, failed>>

Frag(r, side) == IF side = "L" THEN [n |-> r.ln, t |-> r.lt, w |-> r.lw, x |-> r.lx]
                 ELSE [n |-> r.rn, t |-> r.rt, w |-> r.rw, x |-> r.rx]

(* Reassemble the lines of one panel from its rows.  A gutter number opens a line; a row   *)
(* ending in a wrap symbol continues on the next row.  Result: sequence of                  *)
(* [t, x, row, n] (text, truncated?, first row, rows used); a malformed panel is reported  *)
(* as a single record with n = 0.                                                           *)
Bad(i) == << [t |-> <<>>, x |-> FALSE, row |-> i, n |-> 0] >>
IsBad(g) == Len(g) >= 1 /\ g[1].n = 0
RECURSIVE Lines(_, _, _, _, _)
Lines(rows, side, i, open, acc) ==
  IF i > Len(rows) THEN (IF open THEN Bad(i) ELSE acc)
  ELSE LET f == Frag(rows[i], side) IN
    IF f.n # 0 THEN
       IF open THEN Bad(i)
       ELSE Lines(rows, side, i + 1, f.w, Append(acc, [t |-> f.t, x |-> f.x, row |-> i, n |-> 1]))
    ELSE IF open THEN
       LET last == acc[Len(acc)] IN
       Lines(rows, side, i + 1, f.w,
             [acc EXCEPT ![Len(acc)] = [last EXCEPT !.t = @ \o f.t, !.x = f.x, !.n = @ + 1]])
    ELSE IF f.t # <<>> THEN Bad(i)            \* text that belongs to no line
    ELSE Lines(rows, side, i + 1, FALSE, acc)

IsPrefix(a, b) == Len(a) <= Len(b) /\ \A i \in DOMAIN a : a[i] = b[i]

\* a rendered line against the wanted one: identical, or cut after limit+1 rows with the mark
\* before the truncation mark one column may be padded with a space (a double-width character that
\* no longer fits)
CutOK(g, w) == \/ (IsPrefix(g, w) /\ Len(g) < Len(w))
               \/ (g # <<>> /\ g[Len(g)] = 32 /\ IsPrefix(SubSeq(g, 1, Len(g) - 1), w) /\ Len(g) - 1 < Len(w))
LineOK(e, got, want) ==
  IF got.x THEN e.limit >= 0 /\ got.n = e.limit + 1 /\ CutOK(got.t, want.t)
  ELSE got.t = want.t /\ (e.limit >= 0 => got.n <= e.limit + 1)

PanelOK(e, got, want) == ~IsBad(got) /\ Len(got) = Len(want) /\ \A i \in DOMAIN want : LineOK(e, got[i], want[i])

\* an unchanged line starts on the same row in both panels
ZeroAligned(e, gl, gr) ==
  \A i \in DOMAIN e.left, j \in DOMAIN e.right :
     (e.left[i].z # 0 /\ e.left[i].z = e.right[j].z) => gl[i].row = gr[j].row

Kinds(s) == {s[i] : i \in DOMAIN s}
Why(e) ==
  IF e.code # 0 THEN <<"exit", e.code>>
  ELSE IF \E i \in DOMAIN e.rows : e.rows[i].width > e.W THEN <<"row-too-wide", CHOOSE i \in DOMAIN e.rows : e.rows[i].width > e.W>>
  ELSE IF \E i, j \in DOMAIN e.rows : e.rows[i].col # e.rows[j].col THEN <<"right-panel-column", 0>>
  ELSE IF \E i \in DOMAIN e.rows : Kinds(e.rows[i].lk) \cap {"plus", "plusEmph", "plusNon", "wsErr"} # {}
       THEN <<"added-text-in-left-panel", 0>>
  ELSE IF \E i \in DOMAIN e.rows : Kinds(e.rows[i].rk) \cap {"minus", "minusEmph", "minusNon"} # {}
       THEN <<"removed-text-in-right-panel", 0>>
  ELSE LET gl == Lines(e.rows, "L", 1, FALSE, <<>>) gr == Lines(e.rows, "R", 1, FALSE, <<>>) IN
       IF ~PanelOK(e, gl, e.left) THEN <<"left-panel-lines", 0>>
       ELSE IF ~PanelOK(e, gr, e.right) THEN <<"right-panel-lines", 0>>
       ELSE IF ~ZeroAligned(e, gl, gr) THEN <<"unchanged-line-rows", 0>>
       ELSE <<"", 0>>

Init == l = 1 /\ failed = <<>>
Next == /\ l <= Len(Rec)
        /\ l' = l + 1
        /\ LET e == Rec[l] w == Why(e) IN
             failed' = IF w[1] = "" THEN failed ELSE Append(failed, [run |-> e.run, why |-> w[1], row |-> w[2]])
Spec == Init /\ [][Next]_vars
Done == l <= Len(Rec) \/ PrintT(<<"VERDICT", ToJson(failed)>>)
=============================================================================
