SPECIFICATION Spec
CONSTANTS
  NF = 2
  MaxLen = 9
  Kinds = {"mod", "modeonly", "modemod", "bin", "modebin", "renmode", "rename", "del", "binx", "renbin"}
  MaxHunks = 2
  MaxBody = 3
  Preamble = TRUE
  MaxConf = 1
  Buf = 1
  Fixes = {"D1", "D14", "D2", "D18", "D19", "D20", "D21", "D23", "D24", "D25"}
  ColorOnly = FALSE
  Modes = {}
  ReplayLen = 0
INVARIANTS BinReported RowsOnceInOrder Lag PrefixStable Boundary LanguageByName Replay
PROPERTY NeverRevised
CHECK_DEADLOCK FALSE
