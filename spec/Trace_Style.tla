---------------------------- MODULE Trace_Style ----------------------------
(* Trace validation for C12.  One event per style string tried on the real binary:         *)
(*   [run, ws, rejected, fg, bg, at, exact, rt]                                             *)
(*   ws        the classified words;  rejected: delta refused the string                     *)
(*   fg, bg, at rendition of text painted with the style (Term decoding of the output)       *)
(*   exact     FALSE when colours were mapped to the 256-colour palette (24-bit off): then    *)
(*             direct colours need only come out as some palette colour                       *)
(*   rt        1 = the string reported by --show-config, supplied again, rendered identically; *)
(*             0 = differently; 2 = not tried                                                  *)
(*   pal       the palette entries whose RGB value is exactly that of the (direct) foreground colour asked for            *)
(*   theme     TRUE iff the text sits in a file of a highlighted language under a syntax theme:  *)
(*             then a `syntax` foreground is some colour of the theme, otherwise none            *)
EXTENDS Style, TLC, Json, IOUtils
Rec == ndJsonDeserialize(IOEnv.TRACE)
VARIABLES l, failed
vars == <<l, failed>>

\* (256-colour mode: a direct colour that *is* an entry of the 256-colour palette must come out as that entry - the
\* harness names the entries with exactly that RGB value in e.pal, <<>> when the colour is not in the palette)
PalOK(e, want, got) == (Len(want) = 3 /\ ~e.exact /\ e.pal # <<>>) => (Len(got) = 1 /\ \E i \in DOMAIN e.pal : e.pal[i] = got[1])
ColourOK(e, want, got) == IF want = <<Syntax>> THEN (IF e.theme THEN got # <<>> ELSE got = <<>>)
                          ELSE IF e.exact \/ Len(want) # 3 THEN got = want ELSE Len(got) = 1
Why(e) ==
  LET m == Meaning(e.ws) IN
  IF e.rejected # ~m.ok THEN (IF e.rejected THEN "valid-string-rejected" ELSE "invalid-string-accepted")
  ELSE IF ~m.ok THEN ""
  ELSE IF ~ColourOK(e, m.fg, e.fg) THEN "foreground"
  ELSE IF ~PalOK(e, m.fg, e.fg) THEN "palette-colour-not-kept"
  ELSE IF ~ColourOK(e, m.bg, e.bg) THEN "background"
  ELSE IF {e.at[i] : i \in DOMAIN e.at} # m.at THEN "attributes"
  ELSE IF e.rt = 0 THEN "show-config-round-trip"
  ELSE ""
Init == l = 1 /\ failed = <<>>
Next == /\ l <= Len(Rec)
        /\ l' = l + 1
        /\ LET e == Rec[l] w == Why(e) IN
             failed' = IF w = "" THEN failed ELSE Append(failed, [run |-> e.run, why |-> w])
Spec == Init /\ [][Next]_vars
Done == l <= Len(Rec) \/ PrintT(<<"VERDICT", ToJson(failed)>>)
=============================================================================
