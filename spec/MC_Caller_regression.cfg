SPECIFICATION Spec
CONSTANTS
  BgChecksSource = FALSE
  SetFirst = FALSE
  NQ = 2
INVARIANTS Safe
PROPERTIES QueriesReturn BgFinishes
CHECK_DEADLOCK FALSE
