------------------------------- MODULE Blame -------------------------------
(* git blame rendering: which background colour each line gets (src/handlers/blame.rs).  *)
(* Impl: the colour memo (blame_key_colors), get_color and get_next_color as written.     *)
(* Obs:  the laws a reader relies on, stated on the observable sequence of (key, colour). *)
(* Keys are 1..NK (one per distinct attribution), colours 1..P (palette positions).        *)
EXTENDS Naturals, Sequences, FiniteSets

\* ---------------- Impl ----------------
\* state: [memo : key -> colour (0 = none), prev : key (0 = none)]
InitB(NK) == [memo |-> [k \in 1..NK |-> 0], prev |-> 0]
NKeys(s) == Cardinality({k \in DOMAIN s.memo : s.memo[k] # 0})

\* get_next_color: palette[n_keys % n_colors], or the following one if that equals `other`
NextColor(s, P, other) ==
  LET n == NKeys(s) c == (n % P) + 1 IN
  IF c # other THEN c ELSE ((n + 1) % P) + 1

\* get_color
Color(s, P, k) ==
  LET kc == s.memo[k]
      pc == IF s.prev = 0 THEN 0 ELSE s.memo[s.prev]
      rep == (s.prev = k)
  IN IF kc # 0 /\ pc # 0 /\ rep THEN kc
     ELSE IF kc = 0 /\ pc # 0 THEN NextColor(s, P, pc)
     ELSE IF kc = 0 /\ pc = 0 THEN NextColor(s, P, 0)
     ELSE IF kc # pc THEN kc
     ELSE NextColor(s, P, kc)

StepB(s, P, k) == LET c == Color(s, P, k) IN [memo |-> [s.memo EXCEPT ![k] = c], prev |-> k]

RECURSIVE RunB(_, _, _, _, _)
\* colours assigned to the key sequence ks
RunB(s, P, ks, i, acc) ==
  IF i > Len(ks) THEN acc
  ELSE RunB(StepB(s, P, ks[i]), P, ks, i + 1, Append(acc, Color(s, P, ks[i])))
Colours(NK, P, ks) == RunB(InitB(NK), P, ks, 1, <<>>)

\* ---- lines that git coloured itself (blame.coloring): delta keeps git's colour and does not touch the memo ----
\* gs[i] = TRUE: line i arrived in a colour of git's.  get_color is then not consulted, the memo is not updated, but the
\* line's key becomes the previous key.  For the line after it the previous key may have no colour in the memo: the
\* pinned code has two arms it calls impossible there (result 0 = delta_unreachable); Fixed = TRUE is the repaired code.
ColorG(s, P, k, Fixed) ==
  LET kc == s.memo[k]
      pc == IF s.prev = 0 THEN 0 ELSE s.memo[s.prev]
      rep == (s.prev = k)
  IN IF kc # 0 /\ pc # 0 /\ rep THEN kc
     ELSE IF kc = 0 /\ rep THEN (IF Fixed THEN NextColor(s, P, pc) ELSE 0)          \* "is_repeat cannot be true when key has no color"
     ELSE IF kc = 0 /\ pc # 0 THEN NextColor(s, P, pc)
     ELSE IF kc = 0 /\ pc = 0 THEN NextColor(s, P, 0)
     ELSE IF pc = 0 THEN (IF Fixed THEN kc ELSE 0)                                  \* "There must be a previous key if the key has a color"
     ELSE IF kc # pc THEN kc
     ELSE NextColor(s, P, kc)
StepG(s, P, k, g, Fixed) == IF g THEN [s EXCEPT !.prev = k]
                            ELSE LET c == ColorG(s, P, k, Fixed) IN [memo |-> [s.memo EXCEPT ![k] = c], prev |-> k]
RECURSIVE RunG(_, _, _, _, _, _, _)
\* colours of the lines (git-coloured lines: 100 + key, a colour of git's choosing; 0 = the code gave up)
RunG(s, P, ks, gs, i, acc, Fixed) ==
  IF i > Len(ks) THEN acc
  ELSE RunG(StepG(s, P, ks[i], gs[i], Fixed), P, ks, gs, i + 1,
            Append(acc, IF gs[i] THEN 100 + ks[i] ELSE ColorG(s, P, ks[i], Fixed)), Fixed)
ColoursG(NK, P, ks, gs, Fixed) == RunG(InitB(NK), P, ks, gs, 1, <<>>, Fixed)
\* every line delta colours gets a palette colour (the handler never gives up)
TotalG(P, ks, gs, cs) == \A i \in DOMAIN ks : ~gs[i] => cs[i] \in 1..P
\* the laws, between neighbouring lines that delta coloured itself
LawsG(ks, gs, cs) ==
  /\ \A i \in 2..Len(ks) : (~gs[i] /\ ~gs[i - 1]) => ((ks[i] = ks[i - 1]) <=> (cs[i] = cs[i - 1]))

\* ---------------- Obs ----------------
\* ks keys, cs colours (any values comparable for equality), both of the same length
SameKeySameColour(ks, cs) == \A i \in 2..Len(ks) : ks[i] = ks[i - 1] => cs[i] = cs[i - 1]
ChangeChangesColour(ks, cs) == \A i \in 2..Len(ks) : ks[i] # ks[i - 1] => cs[i] # cs[i - 1]
\* last earlier line with the same key (0 if none)
LastSame(ks, i) == LET S == {j \in 1..(i - 1) : ks[j] = ks[i]} IN
                     IF S = {} THEN 0 ELSE CHOOSE j \in S : \A q \in S : q <= j
\* an attribution keeps its colour when it reappears unless that would collide with the line above
ColourSticky(ks, cs) ==
  \A i \in 2..Len(ks) : LET j == LastSame(ks, i) IN
     (j # 0 /\ ~(ks[i] # ks[i - 1] /\ cs[j] = cs[i - 1])) => cs[i] = cs[j]
Laws(ks, cs) == SameKeySameColour(ks, cs) /\ ChangeChangesColour(ks, cs) /\ ColourSticky(ks, cs)
=============================================================================
