SPECIFICATION Spec
CONSTANTS
  NoGitRec = FALSE
  SortedFlags = TRUE
  Emit = FALSE
INVARIANTS LnRight
CHECK_DEADLOCK FALSE
