--------------------------- MODULE Trace_Options ---------------------------
(* Trace validation for C13.  One event per placement tried on the real binary:             *)
(*   [run, p, values]   p as in Options.tla (sets as sequences), values = the source names    *)
(*   that `delta --show-config` reported for the option in repeated fresh processes           *)
EXTENDS Options, Json, IOUtils
Rec == ndJsonDeserialize(IOEnv.TRACE)
VARIABLES l, failed, drift
vars == <<l, failed, drift>>
ToSet(s) == {s[i] : i \in DOMAIN s}
Plc(e) == [e.p EXCEPT !.custom = ToSet(@), !.flagsCli = ToSet(@), !.flagsMain = ToSet(@)]
Why(e) ==
  IF \E i, j \in DOMAIN e.values : e.values[i] # e.values[j] THEN "not-deterministic"
  ELSE IF e.values[1] \notin Allowed(Plc(e)) THEN "precedence"
  ELSE IF \E i \in DOMAIN e.ln : ~LnOK(Plc(e), e.ln[i]) THEN "feature-of-feature"
  ELSE ""
\* drift: the binary resolves differently from the implementation-shaped model (report, no verdict)
Drifts(e) == LET q == Plc(e) IN
             \/ e.values[1] # ImplValue(q, SelectSeq(FlagOrder, LAMBDA f : f \in q.flagsMain))
             \/ e.ln[1] # ImplLn(q, SelectSeq(FlagOrder, LAMBDA f : f \in q.flagsMain))
Init == l = 1 /\ failed = <<>> /\ drift = <<>>
Next == /\ l <= Len(Rec)
        /\ l' = l + 1
        /\ LET e == Rec[l] w == Why(e) IN
             /\ failed' = IF w = "" THEN failed ELSE Append(failed, [run |-> e.run, why |-> w])
             /\ drift' = IF Drifts(e) THEN Append(drift, e.run) ELSE drift
Spec == Init /\ [][Next]_vars
Done == l <= Len(Rec) \/ (PrintT(<<"DRIFT", ToJson(drift)>>) /\ PrintT(<<"VERDICT", ToJson(failed)>>))
=============================================================================
