------------------------------- MODULE Pager -------------------------------
(* Exit status and pager protocol (src/main.rs run_app, src/utils/bat/output.rs, env.rs). *)
(* A scenario is a record:                                                                 *)
(*   mode     "stdin" | "diff" | "wrap"      how delta gets its input; "showconfig" | "version":   *)
(*            no input, delta prints what it was asked for                                       *)
(*   out      "stdout" | "pager"             where the output goes                            *)
(*   quit     0 = the consumer stays; n > 0 = the consumer goes away at the n-th write /      *)
(*            after n bytes (pager)                                                           *)
(*   status   exit status of the differ / wrapped command (mode diff, wrap)                   *)
(*   src      the set of pager sources that are set: subset of {"config","delta","bat","pager"} *)
(*   pagerval value of $PAGER ("envpager" | "more" | "less -F")                                *)
(*   bare     the explicit sources (--pager, DELTA_PAGER) name a bare `less` (no arguments) instead of  *)
(*            mypager / otherpager                                                                 *)
(*   stay     the pager, having stopped reading, closes its input but stays alive for a while  *)
(*   big      the output is larger than a pipe buffer (a write after the pager stopped reading  *)
(*            really fails)                                                                    *)
(*   how      mode diff: "files" two paths | "samepath" the same path twice | "badopt" an        *)
(*            option the differ rejects (status >= 2 then comes from the differ itself)          *)
(*   wf, wat  a disturbed write call (the consumer stays): "none" | "short" the wat-th write call   *)
(*            takes only a part of its bytes | "shortall" so does every later one | "eintr" it fails  *)
(*            with EINTR; what the consumer gets and how delta exits must not depend on it           *)
(*   noisy    the program delta starts (mode diff, wrap) talks on stderr: a differ with tracing switched on, a wrapped      *)
(*            command that writes NoisyLines lines there before anything else.  Status and output are what they are without  *)
(*            the talk, and what a wrapped command said on stderr arrives on delta's stderr.                                  *)
(* The operators below say what must be observed; they are used both to enumerate the fault  *)
(* space (MC_Pager) and to judge recorded runs (Trace_Pager).                                *)
EXTENDS Naturals, Sequences, FiniteSets

\* --- exit status ---
NormalExit(sc) == CASE sc.mode \in {"stdin", "showconfig", "version"} -> 0      \* (informational output: --show-config, --version)
                    [] sc.mode = "diff"  -> sc.status   \* 0 same, 1 different, >= 2 trouble
                    [] sc.mode = "wrap"  -> sc.status
WantExit(sc) == IF sc.quit > 0 THEN 0 ELSE NormalExit(sc)      \* reader gone: stop quietly
(* hit = the write at which the consumer disappears really took place (a run that writes less than *)
(* that never notices).  With a pager, whether delta still has something to write when the pager    *)
(* has gone depends on pipe buffering: both outcomes are legitimate there.                         *)
ExitOK(sc, code, hit) ==
  IF sc.quit = 0 THEN code = NormalExit(sc)
  ELSE IF sc.out = "stdout" THEN code = (IF hit THEN 0 ELSE NormalExit(sc))
  ELSE code \in {0, NormalExit(sc)}
WantQuiet(sc) == sc.quit > 0 \/ sc.wf # "none"                 \* no panic, no error message about the consumer

\* --- pager selection:  --pager / delta.pager > DELTA_PAGER > BAT_PAGER > PAGER > less ---
Chosen(sc) ==
  IF "config" \in sc.src THEN (IF sc.bare THEN "less" ELSE "mypager")
  ELSE IF "delta" \in sc.src THEN (IF sc.bare THEN "less" ELSE "otherpager")
  ELSE IF "bat" \in sc.src THEN "batpager"
  ELSE IF "pager" \in sc.src THEN (IF sc.pagerval \in {"more", "less -F"} THEN "less" ELSE sc.pagerval)
  ELSE "less"
\* less must be told to pass colours through whenever its arguments are delta's to choose
\* (no arguments given, or the value comes from PAGER, which is shared with other programs)
LessArgsAreDeltas(sc) ==
  Chosen(sc) = "less" /\ (sc.bare \/ (~("config" \in sc.src) /\ ~("delta" \in sc.src))) /\ (("config" \in sc.src \/ "delta" \in sc.src) \/ ~("bat" \in sc.src))

\* --- a program that talks on stderr ---
NoisyLines == 4000
\* errLines: lines that arrived on delta's stderr.  (Status 129 - git rejected an option -: delta shows the first line only.)
StderrOK(sc, errLines) == (sc.noisy /\ sc.mode = "wrap" /\ sc.status # 129) => errLines >= NoisyLines

\* --- delivery ---
\* got: bytes the pager received, sent: bytes delta writes for this input (reference run)
DeliveredOK(sc, got, sent, gotHash, sentHash) ==
  IF sc.quit = 0 THEN got = sent /\ gotHash = sentHash ELSE got <= sent
=============================================================================
