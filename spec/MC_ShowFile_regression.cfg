SPECIFICATION Spec
CONSTANTS
  MaxLen = 7
  Sticky = FALSE
INVARIANT Laws
CHECK_DEADLOCK FALSE
