SPECIFICATION Spec
CONSTANTS
  Hack = {"v2"}
  MaxWrap = 3
  MaxRows = 7
  Emit = FALSE
INVARIANTS TrueNumbers UnifiedTrue Replay
CHECK_DEADLOCK FALSE
