--------------------------- MODULE Trace_ShowFile ---------------------------
(* `git show rev:path` through the real binary (delta started as `delta git show ...` with a stub git that prints  *)
(* the file).  One event per run:                                                                                 *)
(*   [run, caller, lines, rows, code, empty]   (empty = id of the empty text: an empty line is an empty row)        *)
(*   lines[i] = [c, t]: class of file line i ("code" | "inner" | "marker") and id of its text (tabs expanded)       *)
(*   rows[j]  = [t, p]: id of the visible text of output row j, p TRUE iff it is painted in the (reserved) zero      *)
(*              style, i.e. as a highlighted line of the file                                                       *)
EXTENDS ShowFile, TLC, Json, IOUtils

Rec == ndJsonDeserialize(IOEnv.TRACE)
VARIABLES l, failed, drift
vars == <<l, failed, drift>>

Cls(e) == [i \in DOMAIN e.lines |-> e.lines[i].c]
Why(e) ==
  LET cs == Cls(e) n == Len(e.lines) fm == FirstMarker(cs, 1) IN
  IF e.code # 0 THEN "exit"
  ELSE IF MarkerFree(cs) /\ Len(e.rows) # n THEN "row-count"
  ELSE IF Len(e.rows) < fm - 1 THEN "row-count-before-marker"
  ELSE IF \E i \in 1..(fm - 1) : e.rows[i].t # e.lines[i].t THEN "text"
  ELSE IF e.caller = "showfile" /\ \E i \in 1..(fm - 1) : e.rows[i].t # e.empty /\ ~e.rows[i].p THEN "not-highlighted-as-the-file"
  ELSE IF e.caller # "showfile" /\ \E i \in 1..(fm - 1) : e.rows[i].p THEN "free-text-painted"
  ELSE ""

\* the state machine on the same classes: does it say painted / raw where the binary does?  (rows are comparable
\* line by line as long as no construct has written rows of its own)
Drifts(e) == e.code = 0 /\ LET cs == Cls(e) m == Rows(cs, e.caller) fm == FirstMarker(cs, 1) IN
               \E i \in 1..(fm - 1) : i <= Len(e.rows) /\ e.rows[i].t # e.empty /\ (m[i] = "painted") # e.rows[i].p

Init == l = 1 /\ failed = <<>> /\ drift = <<>>
Next == /\ l <= Len(Rec)
        /\ l' = l + 1
        /\ LET e == Rec[l] w == Why(e) IN
             /\ failed' = IF w = "" THEN failed ELSE Append(failed, [run |-> e.run, why |-> w])
             /\ drift' = IF Drifts(e) THEN Append(drift, e.run) ELSE drift
Spec == Init /\ [][Next]_vars
Done == l <= Len(Rec) \/ (PrintT(<<"DRIFT", ToJson(drift)>>) /\ PrintT(<<"VERDICT", ToJson(failed)>>))
=============================================================================
