------------------------------- MODULE Style -------------------------------
(* Meaning of a style string (git's colour language as delta accepts it): up to two       *)
(* colours - the first is the foreground, the second the background - and attributes in   *)
(* any position.  Words arrive classified by the harness's lexer:                          *)
(*   [k |-> "attr",  v |-> <<n>>]      n = SGR attribute number (bold 1, dim 2, italic 3,  *)
(*                                     ul 4, blink 5, reverse 7, hidden 8, strike 9)       *)
(*   [k |-> "color", v |-> colour]     <<n>> palette index, <<r,g,b>> direct colour,        *)
(*                                     <<>> for `normal`, <<Syntax>> for `syntax` (only as   *)
(*                                     the first colour: the foreground comes from syntax    *)
(*                                     highlighting)                                         *)
(*   [k |-> "flag",  v |-> <<>>]       omit / raw / words only meaningful elsewhere         *)
(* Obs: Meaning is the declarative reading; Impl: Slots is the word-by-word slot machine   *)
(* of parse_ansi_term_style.  MC_Style checks they agree on every word sequence in bound.  *)
EXTENDS Naturals, Sequences, FiniteSets

Syntax == 1000
Colours(ws) == SelectSeq(ws, LAMBDA w : w.k = "color")
Meaning(ws) ==
  LET cs == Colours(ws) IN
  [ok |-> Len(cs) <= 2 /\ (Len(cs) = 2 => cs[2].v # <<Syntax>>),
   fg |-> IF Len(cs) >= 1 THEN cs[1].v ELSE <<>>,
   bg |-> IF Len(cs) >= 2 THEN cs[2].v ELSE <<>>,
   at |-> {ws[i].v[1] : i \in {j \in DOMAIN ws : ws[j].k = "attr"}}]

\* Impl: the slot machine
RECURSIVE Slots(_, _, _)
Slots(ws, i, st) ==
  IF i > Len(ws) THEN st
  ELSE LET w == ws[i] IN
    IF w.k = "attr" THEN Slots(ws, i + 1, [st EXCEPT !.at = @ \cup {w.v[1]}])
    ELSE IF w.k = "flag" THEN Slots(ws, i + 1, st)
    ELSE IF ~st.seenFg THEN Slots(ws, i + 1, [st EXCEPT !.fg = w.v, !.seenFg = TRUE])
    ELSE IF ~st.seenBg THEN (IF w.v = <<Syntax>> THEN [st EXCEPT !.ok = FALSE]
                             ELSE Slots(ws, i + 1, [st EXCEPT !.bg = w.v, !.seenBg = TRUE]))
    ELSE [st EXCEPT !.ok = FALSE]
Parse(ws) == LET r == Slots(ws, 1, [ok |-> TRUE, fg |-> <<>>, bg |-> <<>>, at |-> {}, seenFg |-> FALSE, seenBg |-> FALSE])
             IN [ok |-> r.ok, fg |-> IF r.ok THEN r.fg ELSE Meaning(ws).fg, bg |-> IF r.ok THEN r.bg ELSE Meaning(ws).bg, at |-> IF r.ok THEN r.at ELSE Meaning(ws).at]
=============================================================================
