----------------------------- MODULE Trace_Grep -----------------------------
(* C16: grep output keeps every hit's path, line number and code.                         *)
(* One event per rendered grep result stream:                                              *)
(*   [run, style, recs, rows, code, empty]   (empty = id of the empty code text)           *)
(*   style  "ripgrep" (one header row per run of hits in a file) | "classic" (path on every *)
(*          row)                                                                           *)
(*   recs   input records [p, n, t, c, sm]: path id, line number (0 absent), type           *)
(*          ("match" | "context" | "header"), id of the code text (tabs expanded, trailing   *)
(*          blanks ignored), sm = submatch column ranges <<a, b>> (rg --json) or <<>>         *)
(*   rows   output rows [k, p, n, c, m, em]: k kind ("path" | "hit" | "sep" | "blank" |      *)
(*          "other"), p path id shown (0 none), n number shown (0 none), c code id,          *)
(*          m TRUE iff painted as a match line, em emphasised column ranges                 *)
EXTENDS Grep, TLC, Json, IOUtils

Rec == ndJsonDeserialize(IOEnv.TRACE)
VARIABLES l, failed, drift
vars == <<l, failed, drift>>

\* the implementation-shaped model (Grep) run on the same records: does it predict the kinds of rows written - the
\* empty row between files, file headers, "--" separators, hits - in the order the binary writes them?  (drift only)
ModelKinds(e) == LET rs == Rows(e.style, [i \in DOMAIN e.recs |-> [p |-> e.recs[i].p, n |-> e.recs[i].n, t |-> e.recs[i].t]])
                 IN [j \in DOMAIN rs |-> rs[j].k]
\* (an empty hit without number is seen as a blank row: compare hits and blanks alike)
Norm(k) == IF k = "blank" THEN "hit" ELSE k
ObsKinds(e) == LET rs == SelectSeq(e.rows, LAMBDA x : x.k # "other") IN [j \in DOMAIN rs |-> rs[j].k]
Drifts(e) == e.code = 0 /\ e.model /\ [j \in DOMAIN ModelKinds(e) |-> Norm(ModelKinds(e)[j])] # [j \in DOMAIN ObsKinds(e) |-> Norm(ObsKinds(e)[j])]

\* an empty line without a number is shown as an empty row
EmptyRec(e, r) == r.n = 0 /\ r.c = e.empty
HitOK(e, r, x, needPath) ==
  /\ x.k = "hit" \/ (x.k = "blank" /\ EmptyRec(e, r) /\ ~needPath)
  /\ x.n = r.n
  /\ x.c = r.c
  /\ (r.t = "match") = x.m
  /\ needPath => x.p = r.p
  /\ (r.sm # <<>> => x.em = r.sm)      \* rg --json: highlighted spans are the reported submatches

\* ripgrep style: walk records i and rows j; cur = path of the open group (0 none)
RECURSIVE WalkR(_, _, _, _)
WalkR(e, i, j, cur) ==
  IF i > Len(e.recs) THEN
     IF j > Len(e.rows) THEN 0
     ELSE IF e.rows[j].k \in {"sep", "blank"} THEN WalkR(e, i, j + 1, cur) ELSE j
  ELSE IF j > Len(e.rows) THEN Len(e.rows) + 1
  ELSE LET r == e.recs[i] x == e.rows[j] IN
    IF x.k = "sep" \/ (x.k = "blank" /\ ~(r.p = cur /\ EmptyRec(e, r))) THEN WalkR(e, i, j + 1, cur)
    ELSE IF r.p # cur THEN (IF x.k = "path" /\ x.p = r.p THEN WalkR(e, i, j + 1, r.p) ELSE j)
    ELSE IF HitOK(e, r, x, FALSE) THEN WalkR(e, i + 1, j + 1, cur)
    ELSE j

\* classic style: one row per record, each naming its path
RECURSIVE WalkC(_, _, _)
WalkC(e, i, j) ==
  IF i > Len(e.recs) THEN
     IF j > Len(e.rows) THEN 0 ELSE IF e.rows[j].k \in {"sep", "blank"} THEN WalkC(e, i, j + 1) ELSE j
  ELSE IF j > Len(e.rows) THEN Len(e.rows) + 1
  ELSE LET r == e.recs[i] x == e.rows[j] IN
    IF x.k \in {"sep", "blank"} THEN WalkC(e, i, j + 1)
    ELSE IF HitOK(e, r, x, TRUE) THEN WalkC(e, i + 1, j + 1)
    ELSE j

Judge(e) == IF e.code # 0 THEN 100000 + e.code
            ELSE IF e.style = "ripgrep" THEN WalkR(e, 1, 1, 0) ELSE WalkC(e, 1, 1)

Init == l = 1 /\ failed = <<>> /\ drift = <<>>
Next == /\ l <= Len(Rec)
        /\ l' = l + 1
        /\ LET e == Rec[l] v == Judge(e) IN
             /\ failed' = IF v = 0 THEN failed ELSE Append(failed, [run |-> e.run, row |-> v])
             /\ drift' = IF Drifts(e) THEN Append(drift, e.run) ELSE drift
Spec == Init /\ [][Next]_vars
Done == l <= Len(Rec) \/ (PrintT(<<"DRIFT", ToJson(drift)>>) /\ PrintT(<<"VERDICT", ToJson(failed)>>))
=============================================================================
