SPECIFICATION Spec
CONSTANTS
  FixNoProgress = FALSE
  MaxG = 6
  Widths = {2, 3, 4, 5}
  Limits = {0, 2, 3}
INVARIANTS Terminates LosslessAlways Fits Symbols LockStep ProgressWhenRoomy
CHECK_DEADLOCK FALSE
