SPECIFICATION Spec
CONSTANTS
  MaxLen = 7
  Sticky = TRUE
INVARIANT Laws
CHECK_DEADLOCK FALSE
