--------------------------- MODULE Trace_ColorOnly ---------------------------
(* C02: with --color-only, delta is a line-for-line, text-preserving filter.               *)
(* One event per run:  [run, cls, tab, vin, vout, over, code]                               *)
(*   cls[i]  class of input line i          tab[i]  TRUE iff the line contains a TAB        *)
(*   vin[i]  id of the visible text of input line i (escape sequences removed)              *)
(*   vout[j] id of the visible text of output row j                                         *)
(*   over    which presets of the mode the user explicitly overrode                         *)
(*   lines   the history as [c, f, g, kd] records; plain = no option beside --color-only    *)
(* LineForLine holds whatever else is configured; TextSame unless an override applies to    *)
(* the line's class (marker removal, a tab width, an omit style, a line-number gutter).     *)
EXTENDS Naturals, Sequences, FiniteSets, TLC, Json, IOUtils

Rec == ndJsonDeserialize(IOEnv.TRACE)
VARIABLES l, failed, drift
vars == <<l, failed, drift>>

\* the implementation-shaped model in color-only mode, run on the same history (drift report, never a verdict):
\* does it write one row per input line, in order - and does the binary?
IS == INSTANCE Impl_Stream WITH Modes <- {}, Buf <- 32, ColorOnly <- TRUE, Fixes <- {"D1", "D14", "D2", "D18", "D19", "D20", "D21", "D23", "D24", "D25"}
RECURSIVE ImplRun(_, _, _)
ImplRun(h, st, k) == IF k > Len(h) THEN st ELSE ImplRun(h, IS!Step(st, k, h[k]), k + 1)
ModelLineForLine(e) == LET w == IS!Finish(ImplRun(e.lines, IS!InitS, 1)).w IN [i \in DOMAIN w |-> w[i].k] = [k \in 1..Len(e.lines) |-> k]
Drifts(e) == e.code = 0 /\ (ModelLineForLine(e) # (Len(e.vout) = Len(e.vin)))

Body == {"minus", "plus", "zero", "cin", "m_ours", "m_anc", "m_theirs", "m_end",   \* (in this mode conflict markers are hunk lines)
         "minus3", "plus3",          \* hunk lines of a diff -u stream whose text looks like a header ("--- x", "+++ x")
         "subm", "subp"}             \* the two "Subproject commit" lines of a submodule's hunk
HeaderLines == {"diff", "index", "newfile", "delfile", "simil", "renfrom", "rento", "copyfrom", "copyto", "oldmode",
                "newmode", "binary", "mmm", "ppp", "du", "onlyin", "sublog"}
Exempt(e, i) ==
  LET c == e.cls[i] o == {e.over[k] : k \in DOMAIN e.over} IN
  \/ "markers" \in o /\ c \in Body
  \/ "numbers" \in o /\ c \in Body \cup {"blank"}    \* (an empty line inside a combined hunk is an unchanged line)
  \/ "tabs" \in o /\ e.tab[i]
  \/ "omit-commit" \in o /\ c = "commit"
  \/ "omit-file" \in o /\ c \in HeaderLines
  \/ "omit-hunk-header" \in o /\ c = "hh"
  \/ "hunk-header-words" \in o /\ c = "hh"     \* asking for file / line-number in the hunk header adds them

Judge(e) ==
  IF e.code # 0 THEN [why |-> "exit", at |-> e.code]
  ELSE IF Len(e.vout) # Len(e.vin) THEN [why |-> "line-count", at |-> Len(e.vout)]
  ELSE LET bad == {i \in DOMAIN e.vin : ~Exempt(e, i) /\ e.vin[i] # e.vout[i]} IN
       IF bad = {} THEN [why |-> "", at |-> 0]
       ELSE [why |-> "text", at |-> CHOOSE i \in bad : \A j \in bad : i <= j]

Init == l = 1 /\ failed = <<>> /\ drift = <<>>
Next == /\ l <= Len(Rec)
        /\ l' = l + 1
        /\ LET e == Rec[l] v == Judge(e) IN
             /\ failed' = IF v.why = "" THEN failed ELSE Append(failed, [run |-> e.run] @@ v)
             /\ drift' = IF Drifts(e) THEN Append(drift, e.run) ELSE drift
Spec == Init /\ [][Next]_vars
Done == l <= Len(Rec) \/ (PrintT(<<"DRIFT", ToJson(drift)>>) /\ PrintT(<<"VERDICT", ToJson(failed)>>))
=============================================================================
