SPECIFICATION Spec
CONSTANTS
  NF = 2
  MaxLen = 11
  MaxHunks = 2
  MaxOld = 2
  MaxNew = 2
  Ambig = {"minus3"}
  Titled = FALSE
  Buf = 1
  Fixes = {"D1", "D14", "D2", "D18", "D19", "D20", "D21", "D23", "D24", "D25"}
  ColorOnly = FALSE
  Modes = {}
  ReplayLen = 8
INVARIANTS RowsOnceInOrder Lag PrefixStable LanguageByName Replay
CHECK_DEADLOCK FALSE
