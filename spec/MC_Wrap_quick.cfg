SPECIFICATION Spec
CONSTANTS
  FixNoProgress = TRUE
  MaxG = 5
  Widths = {2, 3, 4}
  Limits = {0, 2, 3}
INVARIANTS Terminates LosslessAlways Fits Symbols LockStep ProgressWhenRoomy
CHECK_DEADLOCK FALSE
