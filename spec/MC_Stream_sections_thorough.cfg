SPECIFICATION Spec
CONSTANTS
  NF = 2
  MaxLen = 12
  Kinds = {"mod", "add", "addempty", "del", "rename", "renmod", "copy", "modeonly", "modemod", "bin", "binadd", "bare", "modebin", "renmode", "sublog", "subshort", "binx", "renbin", "subdel", "subadd"}
  MaxHunks = 2
  MaxBody = 3
  Preamble = FALSE
  MaxConf = 1
  Buf = 1
  Fixes = {"D1", "D14", "D2", "D18", "D19", "D20", "D21", "D23", "D24", "D25"}
  ColorOnly = FALSE
  Modes = {}
  ReplayLen = 12
INVARIANTS RowsOnceInOrder Lag PrefixStable Boundary ReplaySections
CONSTRAINT OneSection
CHECK_DEADLOCK FALSE
