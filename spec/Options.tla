------------------------------ MODULE Options ------------------------------
(* How the effective value of one option is resolved (src/options/set.rs gather_features,  *)
(* src/options/get.rs get_option_value).  A placement p says where the option is set:        *)
(*   cli, gcp, main : BOOLEAN   command line / GIT_CONFIG_PARAMETERS / [delta] section        *)
(*   custom         : set of feature names whose [delta "name"] section sets the option       *)
(*   mainF, cliF, envF : sequences of feature names ([delta] features = ..., --features,       *)
(*                    DELTA_FEATURES); hasCliF: --features was given; envMode "none"|"plain"|"plus" *)
(*   childA         : sequence, the `features = ...` list inside [delta "A"]                    *)
(*   flagsCli, flagsMain : sets of builtin features enabled by flag on the command line / in    *)
(*                    the [delta] section                                                       *)
(*   noGit          : --no-gitconfig (then nothing written in any gitconfig source counts, also   *)
(*                    not a file named with --config nor GIT_CONFIG_PARAMETERS)                  *)
(* A feature may be listed more than once in one list ("a b a"): the last occurrence counts.    *)
(* Values are source names: "cli", "gcp", "main", "c_<feature>" (custom section), "b_<feature>" *)
(* (builtin feature's own value), "default".                                                    *)
EXTENDS Naturals, Sequences, FiniteSets, TLC

CONSTANT NoGitRec    \* TRUE: with --no-gitconfig (no gitconfig object at all) a built-in feature named in --features /
                     \* DELTA_FEATURES still enables the built-in features it contains (the repaired behaviour); FALSE: the
                     \* names are only pushed (the pinned code)

Builtins == {"dsf", "dh"}           \* diff-so-fancy, diff-highlight: both set the option themselves
BuiltinNames == Builtins \cup {"nav", "sbs", "ln"}   \* navigate, side-by-side, line-numbers: built-in features that do not set the option
BuiltinKids(f) == IF f = "sbs" THEN <<"ln">> ELSE <<>>     \* side-by-side contains `features = line-numbers`
Rev(s) == [i \in 1..Len(s) |-> s[Len(s) + 1 - i]]
Contains(s, x) == \E i \in DOMAIN s : s[i] = x
Children(p, f) == IF f = "A" /\ ~p.noGit THEN p.childA ELSE <<>>    \* the list lives in gitconfig

\* value a feature provides for the option ("" none)
\* (p.optB: the option observed is one that diff-so-fancy / diff-highlight set themselves (a style); FALSE: one that
\* no built-in feature sets and whose value has another type in the code (an optional string such as width))
Provides(p, f) == IF ~p.noGit /\ f \in p.custom THEN "c_" \o f
                  ELSE IF f \in Builtins /\ p.optB THEN "b_" \o f ELSE ""

\* ------------------------------- Impl --------------------------------------------
\* The feature deque: index 1 = front.  push_front puts later-gathered features in front;
\* the lookup walks from the back, so what is gathered first has the highest priority.
PushFront(d, f) == <<f>> \o d
RECURSIVE GatherBuiltin(_, _), GatherBuiltinAll(_, _)
\* gather_builtin_features_recursively: the feature, then the built-in features it contains
GatherBuiltin(d, f) == IF Contains(d, f) THEN d ELSE GatherBuiltinAll(PushFront(d, f), BuiltinKids(f))
GatherBuiltinAll(d, fs) == IF fs = <<>> THEN d ELSE GatherBuiltinAll(GatherBuiltin(d, fs[1]), Tail(fs))
RECURSIVE GatherRec(_, _, _), GatherAll(_, _, _)
GatherRec(p, d, f) ==
  LET d1 == IF f \in BuiltinNames THEN GatherBuiltin(d, f) ELSE PushFront(d, f)
  IN GatherAll(p, d1, Rev(Children(p, f)))        \* split_feature_string reverses the list
\* gather a list of (child) features, skipping those already present
GatherAll(p, d, fs) ==
  IF fs = <<>> THEN d
  ELSE GatherAll(p, IF Contains(d, fs[1]) THEN d ELSE GatherRec(p, d, fs[1]), Tail(fs))
RECURSIVE GatherTop(_, _, _)
\* top-level lists are gathered without the "already present" test
GatherTop(p, d, fs) == IF fs = <<>> THEN d ELSE GatherTop(p, GatherRec(p, d, fs[1]), Tail(fs))
RECURSIVE PushAll(_, _)
PushAll(d, fs) == IF fs = <<>> THEN d
                  ELSE PushAll(IF NoGitRec /\ fs[1] \in BuiltinNames THEN GatherBuiltin(d, fs[1]) ELSE PushFront(d, fs[1]), Tail(fs))
RECURSIVE GatherFlags(_, _)
GatherFlags(d, fs) == IF fs = <<>> THEN d ELSE GatherFlags(GatherBuiltin(d, fs[1]), Tail(fs))

\* code order of the command-line flags; ordMain = order in which the [delta] section's flags are met
FlagOrder == <<"dh", "dsf", "ln", "nav", "sbs">>      \* order of the `if opt.<flag>` tests in gather_features = sorted order of the names
CliFlagSeq(p) == SelectSeq(FlagOrder, LAMBDA f : f \in p.flagsCli)
FeatureList(p, ordMain) ==
  LET input == CASE p.envMode = "plus"  -> p.envF \o Rev(p.cliF)
                 [] p.envMode = "plain" -> Rev(p.envF)
                 [] OTHER               -> Rev(p.cliF)
      optFeaturesSet == p.hasCliF \/ p.envMode = "plain"
      d1 == IF p.noGit THEN PushAll(<<>>, input) ELSE GatherTop(p, <<>>, input)
      d2 == GatherFlags(d1, CliFlagSeq(p))
      d3 == IF p.noGit THEN d2
            ELSE GatherFlags(IF optFeaturesSet THEN d2 ELSE GatherTop(p, d2, Rev(p.mainF)), ordMain)
  IN d3
RECURSIVE LookupBack(_, _, _)
LookupBack(p, d, i) == IF i = 0 THEN "default"
                       ELSE IF Provides(p, d[i]) # "" THEN Provides(p, d[i]) ELSE LookupBack(p, d, i - 1)
ImplValue(p, ordMain) ==
  IF p.cli THEN "cli"
  ELSE IF ~p.noGit /\ p.gcp THEN "gcp"
  ELSE IF ~p.noGit /\ p.main THEN "main"
  ELSE LET d == FeatureList(p, ordMain) IN LookupBack(p, d, Len(d))

\* is the built-in feature line-numbers enabled?
ImplLn(p, ordMain) == Contains(FeatureList(p, ordMain), "ln")

\* ------------------------------- Obs ---------------------------------------------
\* "features enabled by features": line-numbers is on whenever it, or side-by-side (which contains it), is named on the
\* command line / in the environment or given as a flag there; it is off when nothing anywhere names either.
ToSetS(s) == {s[i] : i \in DOMAIN s}
CmdNamed(p) == ToSetS(p.cliF) \cup (IF p.envMode = "none" THEN {} ELSE ToSetS(p.envF)) \cup p.flagsCli
AnyNamed(p) == CmdNamed(p) \cup ToSetS(p.mainF) \cup p.flagsMain \cup ToSetS(p.childA)
LnMustBeOn(p) == CmdNamed(p) \cap {"sbs", "ln"} # {}
LnMustBeOff(p) == AnyNamed(p) \cap {"sbs", "ln"} = {}
LnOK(p, on) == (LnMustBeOn(p) => on) /\ (LnMustBeOff(p) => ~on)

\* priority list (highest first) of one written feature list: last-listed first, each feature
\* followed by what it enables itself
RECURSIVE Desc(_, _), PrioList(_, _)
Desc(p, f) == <<f>> \o PrioList(p, Children(p, f))
PrioList(p, s) == IF s = <<>> THEN <<>> ELSE Desc(p, s[Len(s)]) \o PrioList(p, SubSeq(s, 1, Len(s) - 1))
RECURSIVE FirstProvider(_, _)
FirstProvider(p, s) == IF s = <<>> THEN "default"
                       ELSE IF Provides(p, s[1]) # "" THEN Provides(p, s[1]) ELSE FirstProvider(p, Tail(s))
SeqsOf(S) == IF S = {} THEN {<<>>} ELSE
             IF Cardinality(S) = 1 THEN {<<CHOOSE x \in S : TRUE>>}
             ELSE LET a == CHOOSE x \in S : TRUE b == CHOOSE x \in S \ {a} : TRUE IN {<<a, b>>, <<b, a>>}
(* Values the documented precedence allows.  Named features (--features / DELTA_FEATURES /   *)
(* [delta] features) come before feature flags; inside one list last-listed wins.  What the    *)
(* documentation leaves open is kept open: the relative order of a '+' DELTA_FEATURES value,    *)
(* --features and the [delta] list (and whether --features replaces the [delta] list).          *)
AllowedWith(p, env) ==
      LET
           cliL == PrioList(p, p.cliF)
           mainL == IF p.noGit THEN <<>> ELSE PrioList(p, p.mainF)
           \* features named on the command line / in the environment (documented: before any flag)
           named == IF p.envMode = "plain" THEN {env}
                    ELSE IF p.envMode = "plus" THEN {env \o cliL, cliL \o env}
                    ELSE {cliL}
           \* the [delta] features list: ignored when --features or a plain DELTA_FEATURES is given (the
           \* documentation does not say, so both are allowed when --features is given); its place relative
           \* to '+' DELTA_FEATURES and to the feature flags is not documented either
           mainChoices == IF p.envMode = "plain" THEN {<<>>} ELSE IF p.hasCliF THEN {<<>>, mainL} ELSE {mainL}
           flagsC == SeqsOf(p.flagsCli)
           flagsM == SeqsOf(IF p.noGit THEN {} ELSE p.flagsMain)
           tails == {m \o a \o b : m \in mainChoices, a \in flagsC, b \in flagsM}
                    \cup {a \o m \o b : m \in mainChoices, a \in flagsC, b \in flagsM}
           heads == named \cup (IF p.envMode = "plus" THEN {cliL \o m \o env : m \in mainChoices} ELSE {})
       IN {FirstProvider(p, n \o t) : n \in heads, t \in tails}
              \cup (IF p.envMode = "plus" THEN {FirstProvider(p, cliL \o m \o env \o a \o b) :
                                                  m \in mainChoices, a \in flagsC, b \in flagsM} ELSE {})

Allowed(p) ==
  IF p.cli THEN {"cli"}
  ELSE IF ~p.noGit /\ p.gcp THEN {"gcp"}
  ELSE IF ~p.noGit /\ p.main THEN {"main"}
  ELSE UNION {AllowedWith(p, env) : env \in
                (IF p.envMode = "none" THEN {<<>>}
                 ELSE IF p.envMode = "plain" THEN {PrioList(p, p.envF)}
                 \* the order inside one '+' value is explicitly not part of the claim
                 ELSE {PrioList(p, p.envF), PrioList(p, Rev(p.envF))})}
=============================================================================
