SPECIFICATION Spec
CONSTANTS
  N = 3
  Cap = 2
  Quit = 4
  Stay = FALSE
  WaitsForPager = TRUE
  RetriesShort = FALSE
INVARIANTS AllDelivered
CHECK_DEADLOCK FALSE
