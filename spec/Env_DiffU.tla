----------------------------- MODULE Env_DiffU -----------------------------
(* The environment when delta reads plain `diff -u` / `diff -ru` output: file sections    *)
(* without git's header lines.  Two shapes of stream:                                       *)
(*   Bare     each file is  --- a  /  +++ b  / hunks   (what `diff -u a b` prints); the      *)
(*            stream then begins with "--- ", which makes delta count the old-side lines of  *)
(*            every hunk in order to tell a new "--- file" header from a removed line whose   *)
(*            text starts with "-- "                                                         *)
(*   Titled   each file is preceded by a `diff -ru a b` line (directory comparison)            *)
(* Lines: [c, f, g, kd] as in Env_Git.  New classes: "du" (the diff -ru line, kd = "du"),      *)
(* "mmm" with kd = "dufile" opens a file in a bare stream, "minus3" = a removed line whose      *)
(* text begins with "-- " (so the input line begins with "--- ").  An "hh" line carries the     *)
(* old-side length of its hunk in g (delta reads it from the header).                           *)
EXTENDS Naturals, Sequences, FiniteSets

CONSTANTS NF, MaxLen, MaxHunks, MaxOld, MaxNew, Titled,
          Ambig     \* which header look-alike hunk lines are generated: subset of {"minus3", "plus3"}

VARIABLES hist, gs

L(c, f, g, kd) == [c |-> c, f |-> f, g |-> g, kd |-> kd]
\* phase: "start" (a file may begin), "ppp" (after ---), "body" (in hunks)
\* ones: one-line sections ("Only in", "Binary files") emitted so far - at most two per history, which keeps the
\* bounded model small without losing an adjacency (before / between / after compared files, two in a row)
GInit == [ph |-> "start", f |-> 0, nh |-> 0, old |-> 0, new |-> 0, any |-> FALSE, titled |-> FALSE, ones |-> 0]

Emit(line, s2) == Len(hist) < MaxLen /\ hist' = Append(hist, line) /\ gs' = s2

\* the hunk in progress has received all the old-side lines its header announced
HunkDone(s) == s.nh = 0 \/ (s.old = 0 /\ s.any)
FileDone(s) == s.ph = "start" \/ (s.ph = "body" /\ s.nh >= 1 /\ HunkDone(s))

Title ==
  /\ Titled /\ FileDone(gs) /\ ~gs.titled
  /\ \E f \in 1..NF : Emit(L("du", f, f, "du"), [gs EXCEPT !.ph = "start", !.titled = TRUE, !.f = f, !.nh = 0])
MinusHeader ==
  /\ FileDone(gs) /\ (Titled => gs.titled)
  /\ \E f \in 1..NF : (gs.titled => f = gs.f) /\
       Emit(L("mmm", f, 0, IF Titled THEN "" ELSE "dufile"), [gs EXCEPT !.ph = "ppp", !.f = f, !.nh = 0, !.titled = FALSE])
PlusHeader ==
  /\ gs.ph = "ppp" /\ Emit(L("ppp", gs.f, 0, ""), [gs EXCEPT !.ph = "body", !.old = 0, !.new = 0, !.any = FALSE])
HunkHeader ==
  /\ gs.ph = "body" /\ gs.nh < MaxHunks /\ HunkDone(gs)
  /\ \E n \in 0..MaxOld : Emit(L("hh", 0, n, ""), [gs EXCEPT !.nh = @ + 1, !.old = n, !.new = 0, !.any = FALSE])
OldLine ==   \* removed or unchanged line: counts against the announced old-side length
  /\ gs.ph = "body" /\ gs.nh >= 1 /\ gs.old > 0
  /\ \E c \in {"minus", "zero"} \cup (Ambig \cap {"minus3"}) : Emit(L(c, 0, 0, ""), [gs EXCEPT !.old = @ - 1, !.any = TRUE])
NewLine ==
  /\ gs.ph = "body" /\ gs.nh >= 1 /\ gs.new < MaxNew
  /\ \E c \in {"plus"} \cup (Ambig \cap {"plus3"}) : Emit(L(c, 0, 0, ""), [gs EXCEPT !.new = @ + 1, !.any = TRUE])
OnlyIn ==      \* diff -r: "Only in <dir>: <name>", a one-line section between the compared files
  /\ Titled /\ FileDone(gs) /\ ~gs.titled /\ gs.ones < 2
  /\ \E f \in 1..NF : Emit(L("onlyin", f, f, "onlyin"), [gs EXCEPT !.ph = "start", !.nh = 0, !.ones = @ + 1])
BinaryDiffer ==   \* diff -r: "Binary files a/x and b/x differ", a one-line section without a "diff" line of its own
  /\ Titled /\ FileDone(gs) /\ ~gs.titled /\ gs.ones < 2
  /\ \E f \in 1..NF : Emit(L("binary", f, f, "dubin"), [gs EXCEPT !.ph = "start", !.nh = 0, !.ones = @ + 1])
GNext == BinaryDiffer \/ OnlyIn \/ Title \/ MinusHeader \/ PlusHeader \/ HunkHeader \/ OldLine \/ NewLine
Complete(s) == FileDone(s)
=============================================================================
