SPECIFICATION Spec
CONSTANTS
  BgChecksSource = TRUE
  SetFirst = FALSE
  NQ = 2
INVARIANTS Safe Schedules
PROPERTIES QueriesReturn BgFinishes
CHECK_DEADLOCK FALSE
