---------------------------- MODULE Impl_Stream ----------------------------
(* Implementation-shaped model of delta's line-driven state machine (src/delta.rs,       *)
(* src/handlers/*.rs) and of the Painter's buffering (src/paint.rs), for git input.      *)
(* One operator per handler, tried in the order of the `||` chain in                     *)
(* StateMachine::consume; the same variables the code has.  Deliberately modelled:       *)
(*   - header writers write to `writer` directly, bypassing output_buffer;               *)
(*   - lines nobody claims run through handle_git_show_file_line / handle_blame_line /   *)
(*     handle_grep_line, each of which begins with an unconditional painter.emit();      *)
(*   - the hunk header is emitted lazily, on the first body line;                        *)
(*   - the per-buffer flush rule of handle_hunk_line.                                    *)
(*                                                                                        *)
(* Rows written are records [t, k, d]: t tag, k index of the input line the row renders  *)
(* (for a file header: the index of the section's "diff" line), d header descriptor      *)
(* <<old, new, label, mode, bin>> (<<>> for other rows).  File ids: 0 = /dev/null,        *)
(* 99 = empty string (unknown).                                                           *)
EXTENDS Naturals, Sequences, FiniteSets

CONSTANTS Buf,        \* line-buffer-size
          Modes,      \* process-wide modes read off the command line of the calling git (a set of names):
                      \*  "word-diff"  git diff/show/log --word-diff / --color-words: hunk lines carry no marker
                      \*               column; each is written as it came, as an unchanged line (is_word_diff)
          ColorOnly,  \* --color-only: every input line is written as one output line (git's interactive.diffFilter);
                      \* header lines are then written where they stand instead of being composed into one file header
          Fixes       \* which repaired defects the modelled tree contains (a set of names):
                      \*  "D1"  handle_pending_line_with_diff_name emits the output buffer before it
                      \*        writes a header directly to the writer
                      \*  "D14" ... and records the header as handled in its mode-change branch too
                      \*  "D2"  entering a merge-conflict region first paints the buffered -/+ lines
                      \*        (and emits a hunk header that is still pending)
                      \*  "D18" a "---" line of a diff -u stream opens a new file section
                      \*  "D19" a Submodule log line first writes the header still owed to the previous section
                      \*  "D21" the header written for a mode change also says that the file is binary
                      \*  "D23" (color-only) a header line written directly to the writer first empties the output buffer
                      \*  "D24" "Binary files ... differ" after the pair's header has been written is shown as it stands
                      \*  "D25" a "-Subproject commit" line without its "+" twin (removed submodule) is shown, not dropped
                      \*  "D20" "+++ /dev/null" keeps the language chosen from the old name (deleted file)
                      \* Fixes = {} is the tree as pinned; the regression configs drop one fix and
                      \* must produce a counterexample (the design-level check is not vacuous).
FixEmit == "D1" \in Fixes
EmitCO(s) == IF "D23" \in Fixes THEN [s EXCEPT !.w = @ \o s.ob, !.ob = <<>>] ELSE s   \* should_write_generic_diff_header_header_line

NoFile == 99
NotNeeded == 0 - 1000
Row(t, k, d) == [t |-> t, k |-> k, d |-> d]

InitS == [st |-> "Unknown", mf |-> NoFile, pf |-> NoFile, mev |-> "none", pev |-> "none",
          dlf |-> NoFile, mode |-> 0, cur |-> <<>>, handled |-> <<>>,
          mb |-> <<>>, pb |-> <<>>, ob |-> <<>>, w |-> <<>>, hh |-> 0, seck |-> 0, bin |-> FALSE,
          src |-> "Unknown",                    \* Source: "Unknown" | "Git" | "DiffU"
          m3 |-> NotNeeded,                     \* AmbiguousDiffMinusCounter (NotNeeded, or old-side lines still due)
          comb |-> FALSE,                       \* DiffType::Combined
          mcp |-> "", mo |-> <<>>, ma |-> <<>>, mt |-> <<>>,   \* merge conflict phase and buffered lines
          subk |-> 0,                           \* State::SubmoduleShort(Some(old commit)): index of the "-Subproject commit" line held back
          syn |-> 0,                            \* Painter.syntax: id of the file whose name chose the language (0 = the default language)
          hl |-> 0,                             \* Painter.highlighter: the language it was created for (set_highlighter)
          sy |-> <<>>]                          \* <<k, language>> for each hunk line painted, in painting order

HunkStates == {"HunkHeader", "HunkZero", "HunkMinus", "HunkPlus"}
ThreeDashesExpected(s) == s.m3 = NotNeeded \/ s.m3 <= 0
CountLine(s) == IF s.m3 = NotNeeded THEN s ELSE [s EXCEPT !.m3 = @ - 1]


\* Painter::paint_buffered_minus_and_plus_lines (unified view: all minus rows, then all plus rows)
\* (the buffered lines are highlighted now, with the highlighter as it is now)
Flush(s) == [s EXCEPT !.ob = @ \o [i \in 1..Len(s.mb) |-> Row("minus", s.mb[i], <<>>)]
                               \o [i \in 1..Len(s.pb) |-> Row("plus", s.pb[i], <<>>)],
                      !.sy = @ \o [i \in 1..Len(s.mb) |-> <<s.mb[i], s.hl>>] \o [i \in 1..Len(s.pb) |-> <<s.pb[i], s.hl>>],
                      !.mb = <<>>, !.pb = <<>>]
\* Painter::emit
Emit(s) == [s EXCEPT !.w = @ \o s.ob, !.ob = <<>>]
\* a write to painter.writer that does not go through output_buffer
Direct(s, row) == [s EXCEPT !.w = Append(@, row)]

\* get_file_change_description_from_file_paths: which label the header carries
Label(mf, pf, mev) ==
  IF mf = pf THEN "modified"
  ELSE IF pf = 0 THEN "removed"
  ELSE IF mf = 0 THEN "added"
  ELSE IF mev = "rename" THEN "renamed"
  ELSE IF mev = "copy" THEN "copied"
  ELSE "modified"

\* _handle_diff_header_header_line + write_generic_diff_header_header_line (consumes mode_info)
\* (diff -u source: "comparing" form, both paths, the label of a modified file)
HeaderRow(s) == Row("fileHdr", s.seck, IF s.src = "DiffU" THEN <<s.mf, s.pf, "comparing", s.mode, s.bin>>
                                       ELSE <<s.mf, s.pf, Label(s.mf, s.pf, s.mev), s.mode, s.bin>>)
WriteHeader(s) == [Direct(s, HeaderRow(s)) EXCEPT !.mode = 0, !.handled = s.cur]

\* handle_pending_line_with_diff_name
Pending(s) ==
  IF s.st # "DiffHeader" /\ s.src # "DiffU" THEN s
  ELSE LET s1 == IF FixEmit THEN Emit(s) ELSE s IN
       IF s1.mode # 0
       THEN [Direct(s1, Row("fileHdr", s1.seck, <<s1.dlf, s1.dlf, "modified", s1.mode, "D21" \in Fixes /\ s1.bin>>))
               EXCEPT !.mode = 0, !.handled = IF "D14" \in Fixes THEN s1.cur ELSE @]
       ELSE IF ~ColorOnly /\ s1.handled # s1.cur THEN WriteHeader(s1)
       ELSE s1

\* A line no handler claims: handle_git_show_file_line (emit), handle_blame_line (emit),
\* handle_grep_line (emit), then should_skip_line (DiffHeader state) or emit_line_unchanged.
FallThrough(s, k) ==
  LET s1 == Emit(s) IN
  IF s1.st = "DiffHeader" /\ ~ColorOnly THEN s1 ELSE Direct(s1, Row("raw", k, <<>>))

\* handle_commit_meta_header_line (commit-style not raw)
HCommit(s, k) ==
  LET s1 == Pending(Flush(s))
      s2 == Emit([s1 EXCEPT !.st = "CommitMeta", !.hh = 0, !.mcp = ""])
  IN Direct(s2, Row("commit", k, <<>>))

\* handle_diff_header_diff_line
HDiff(s, k, line) ==
  LET s1 == Pending([Flush(s) EXCEPT !.st = "DiffHeader", !.hh = 0])
      name == IF line.f = line.g THEN line.f ELSE NoFile
      s2 == [s1 EXCEPT !.handled = <<>>, !.dlf = name, !.mf = name, !.pf = name, !.mev = "change", !.pev = "change",
                       !.cur = <<name, name>>, !.seck = k, !.bin = FALSE, !.comb = (line.kd = "cc"), !.mcp = ""]
  IN \* (should_skip_line is false in color-only mode: emit_line_unchanged)
     IF ColorOnly THEN Direct(Emit(s2), Row("raw", k, <<>>)) ELSE s2

\* handle_diff_header_file_operation_line: claims the line iff a header is still owed
HFileOp(s, k, line) ==
  LET s1 == IF line.c = "delfile"
            THEN [s EXCEPT !.mf = s.dlf, !.pf = 0, !.mev = "change", !.pev = "change", !.cur = <<s.dlf, 0>>]
            ELSE [s EXCEPT !.mf = 0, !.pf = s.dlf, !.mev = "change", !.pev = "change", !.cur = <<0, s.dlf>>]
  IN IF ColorOnly THEN Direct(EmitCO(s1), Row("raw", k, <<>>))       \* the line itself, styled, where it stands
     ELSE IF s1.handled # s1.cur THEN s1 ELSE FallThrough(s1, k)

\* handle_diff_header_minus_line: never claims the line (returns false unless color-only)
HMinusHdr(s, k, line) ==
  LET ev == CASE line.c = "renfrom" -> "rename" [] line.c = "copyfrom" -> "copy" [] OTHER -> "change"
      \* ("D18": in a diff -u stream a "---" line opens a new file: the next "+++" gets its header again)
      s0 == IF s.src = "DiffU" THEN [s EXCEPT !.st = "DiffHeader", !.hh = 0,
                                              !.seck = IF line.kd = "dufile" THEN k ELSE @,
                                              !.handled = IF "D18" \in Fixes /\ line.c \in {"mmm", "minus3"} THEN <<>> ELSE @] ELSE s
      s1 == Flush([s0 EXCEPT !.mf = line.f, !.mev = ev, !.syn = line.f])   \* set_syntax(old name; None for /dev/null)
  IN IF ColorOnly THEN Direct(EmitCO(s1), Row("raw", k, <<>>)) ELSE FallThrough(s1, k)

\* handle_hunk_header_line: only remembers the header
HHunkHeader(s, k, line) == [s EXCEPT !.st = "HunkHeader", !.hh = k,
                                        !.m3 = IF @ = NotNeeded THEN @ ELSE line.g]   \* count_from(old-side length)

\* handle_diff_header_mode_line
HMode(s, k, line) ==
  IF ColorOnly THEN FallThrough([s EXCEPT !.st = "DiffHeader", !.hh = 0], k)      \* not claimed: the line is passed on
  ELSE IF line.c = "oldmode" THEN [s EXCEPT !.st = "DiffHeader", !.hh = 0, !.mode = 1]
  ELSE IF s.mode # 0 THEN [s EXCEPT !.st = "DiffHeader", !.hh = 0, !.mode = 2]
  ELSE FallThrough([s EXCEPT !.st = "DiffHeader", !.hh = 0], k)

\* handle_diff_header_misc_line, "Binary files ... differ"
HBinary(s, k, line) ==
  IF ColorOnly THEN      \* handle_additional_cases(DiffHeader): the line, styled as a file header
       LET p == IF "D19" \in Fixes /\ s.st = "DiffHeader" THEN Pending(Flush(s)) ELSE Flush(s)
       IN Direct(Emit([p EXCEPT !.st = "DiffHeader", !.hh = 0]), Row("raw", k, <<>>))
  ELSE IF s.mf = NoFile /\ s.pf = NoFile
  THEN [Direct(Emit(s), Row("raw", k, <<>>)) EXCEPT !.handled = s.cur]
  \* ("D24": the header of the current pair has been written already - the previous file of a diff -r stream, or a
  \* renamed file, whose header was due at "rename to" -: the line is written as it stands, after what is buffered)
  ELSE IF "D24" \in Fixes /\ s.cur # <<>> /\ s.handled = s.cur
  THEN Direct(Emit(Flush(s)), Row("raw", k, <<>>))
  ELSE [s EXCEPT !.bin = TRUE]

\* emit_hunk_header_line
EmitHH(s) == IF s.hh = 0 THEN s ELSE [Direct(Emit(Flush(s)), Row("hunkHdr", s.hh, <<>>)) EXCEPT !.hh = 0, !.hl = s.syn]   \* set_highlighter

\* handle_hunk_line
HHunkLine(s, k, line) ==
  LET s0 == IF Len(s.mb) > Buf \/ Len(s.pb) > Buf THEN Flush(s) ELSE s
      s1 == EmitHH(s0)
      s2 == IF "word-diff" \in Modes /\ line.c \in {"minus", "plus", "zero", "minus3", "plus3"} THEN
                   \* new_line_state: HunkZero with the raw line; paint_zero_line writes it unstyled, unhighlighted
                   LET a == Flush(s1) IN CountLine([a EXCEPT !.ob = Append(@, Row("raw", k, <<>>)), !.st = "HunkZero"])
            ELSE
            CASE line.c \in {"minus", "minus3"} ->
                   LET a == IF s1.st = "HunkPlus" THEN Flush(s1) ELSE s1
                   IN CountLine([a EXCEPT !.mb = Append(@, k), !.st = "HunkMinus"])
              [] line.c \in {"plus", "plus3", "subp"} -> [s1 EXCEPT !.pb = Append(@, k), !.st = "HunkPlus"]
              [] line.c = "zero" ->
                   LET a == Flush(s1) IN CountLine([a EXCEPT !.ob = Append(@, Row("zero", k, <<>>)), !.st = "HunkZero",
                                                               !.sy = Append(@, <<k, a.hl>>)])
              [] OTHER ->
                   LET a == Flush(s1) IN [a EXCEPT !.ob = Append(@, Row("raw", k, <<>>)), !.st = "HunkZero"]
  IN Emit(s2)

\* handle_diff_header_plus_line: writes the file header, then falls through
HPlusHdr(s, k, line) ==
  LET ev == CASE line.c = "rento" -> "rename" [] line.c = "copyto" -> "copy" [] OTHER -> "change"
      s1 == Flush([s EXCEPT !.pf = line.f, !.pev = ev, !.cur = <<s.mf, line.f>>,
                            !.syn = IF line.f = 0 /\ "D20" \in Fixes THEN @ ELSE line.f])   \* set_syntax(new name)
      s2 == IF s1.handled # s1.cur THEN WriteHeader(Emit(s1)) ELSE s1
  IN IF ColorOnly THEN Direct(EmitCO(s1), Row("raw", k, <<>>)) ELSE \* (the handler does not claim the line: inside a hunk - a "+++ x" look-alike of a diff -u stream - the
     \* chain goes on to handle_hunk_line, which shows it as an added line as well)
     IF s2.st \in HunkStates THEN HHunkLine(s2, k, line) ELSE FallThrough(s2, k)

\* handle_merge_conflict_line (combined diffs only; comes before handle_hunk_line in the chain)
\* paint_buffered_merge_conflict_lines: two comparisons against the common ancestor
PaintConflict(s, k) ==
  LET a == Emit(s)
      b == Direct(Direct(a, Row("bar", k, <<>>)), Row("mergeHdr", k, <<>>))
      c == Emit([Emit(b) EXCEPT !.ob = @ \o [i \in 1..Len(s.ma) |-> Row("minus", s.ma[i], <<>>)]
                                       \o [i \in 1..Len(s.mo) |-> Row("plus", s.mo[i], <<>>)],
                                !.sy = @ \o [i \in 1..Len(s.ma) |-> <<s.ma[i], s.hl>>] \o [i \in 1..Len(s.mo) |-> <<s.mo[i], s.hl>>]])
      d == Direct(c, Row("mergeHdr", k, <<>>))
      e == Emit([Emit(d) EXCEPT !.ob = @ \o [i \in 1..Len(s.ma) |-> Row("minus", s.ma[i], <<>>)]
                                       \o [i \in 1..Len(s.mt) |-> Row("plus", s.mt[i], <<>>)],
                                !.sy = @ \o [i \in 1..Len(s.ma) |-> <<s.ma[i], s.hl>>] \o [i \in 1..Len(s.mt) |-> <<s.mt[i], s.hl>>]])
  IN [Direct(e, Row("bar", k, <<>>)) EXCEPT !.mo = <<>>, !.ma = <<>>, !.mt = <<>>, !.mcp = "", !.st = "HunkZero"]
HConflict(s, k, line) ==
  LET c == line.c IN
  IF s.mcp = "" THEN       \* enter_merge_conflict
       LET s0 == IF "D2" \in Fixes THEN Flush(EmitHH(s)) ELSE s
       IN [s0 EXCEPT !.st = "MergeConflict", !.mcp = "ours", !.hh = 0]
  ELSE IF c = "m_anc" /\ s.mcp = "ours" THEN [s EXCEPT !.mcp = "anc"]
  ELSE IF c = "m_theirs" /\ s.mcp \in {"ours", "anc"} THEN [s EXCEPT !.mcp = "theirs"]
  ELSE IF c = "m_end" THEN PaintConflict(s, k)
  ELSE CASE s.mcp = "ours" -> [s EXCEPT !.mo = Append(@, k)]       \* store_line
         [] s.mcp = "anc" -> [s EXCEPT !.ma = Append(@, k)]
         [] OTHER -> [s EXCEPT !.mt = Append(@, k)]
ClaimsConflict(s, line) ==
  /\ ~ColorOnly                  \* (in color-only mode conflict markers are ordinary hunk lines)
  /\ \/ s.st \in HunkStates /\ s.comb /\ line.c = "m_ours"
     \/ s.st = "MergeConflict"

\* handle_submodule_log_line -> handle_additional_cases(SubmoduleLog): no pending-header handling here
\* ("D19": the header still owed to the previous section is written first)
HSubLog(s, k, line) ==
  LET p == IF "D19" \in Fixes /\ s.st = "DiffHeader" THEN Pending(Flush(s)) ELSE Flush(s)
      a == Emit([p EXCEPT !.st = "SubmoduleLog", !.hh = 0])
  IN Direct(a, Row("fileHdr", k, <<line.f, line.f, "submodule", 0, FALSE>>))
\* handle_diff_header_misc_line, "Only in <dir>: <name>" (diff -r) -> handle_additional_cases(DiffHeader)
HOnlyIn(s, k, line) ==
  LET p == IF "D19" \in Fixes /\ s.st = "DiffHeader" THEN Pending(Flush(s)) ELSE Flush(s)
      a == Emit([p EXCEPT !.st = "DiffHeader", !.hh = 0])
  IN Direct(a, Row("fileHdr", k, <<line.f, line.f, "onlyin", 0, FALSE>>))
\* handle_submodule_short_line
HSubShort(s, k, line) ==
  IF line.c = "subm" THEN [s EXCEPT !.st = "SubmoduleShort", !.hh = 0, !.subk = k]
  ELSE [Direct(Emit(s), Row("subshort", k, <<>>)) EXCEPT !.subk = 0]
\* handle_pending_submodule_short_commit ("D25"): a "-Subproject commit" line that no "+Subproject commit" follows (a removed
\* submodule) is shown on its own - before the next line is handled, or at the end of the input
PendSub(s, alone) ==
  IF "D25" \in Fixes /\ s.st = "SubmoduleShort" /\ s.subk # 0 /\ alone
  THEN [Direct(Emit(s), Row("subgone", s.subk, <<>>)) EXCEPT !.st = "HunkZero", !.subk = 0]
  ELSE s

\* The handler chain.  Guards are those of the test_* functions for git input.
\* detect_source (first line that says where the input comes from) and the start of old-side counting
Detect(s, line) ==
  IF s.src # "Unknown" THEN s
  ELSE IF line.c \in {"commit", "diff"} THEN [s EXCEPT !.src = "Git"]
  ELSE IF line.c \in {"du", "onlyin"} THEN [s EXCEPT !.src = "DiffU"]
  ELSE IF line.c \in {"mmm", "minus3"} THEN [s EXCEPT !.src = "DiffU", !.m3 = 0]
  ELSE s

StepD(s, k, line) ==
  LET c == line.c hdr == (s.st = "DiffHeader" \/ s.src = "DiffU") IN
  CASE c = "commit" -> HCommit(s, k)
    [] c \in {"diff", "du"} -> HDiff(s, k, line)
    [] c \in {"newfile", "delfile"} /\ hdr -> HFileOp(s, k, line)
    [] c \in {"mmm", "minus3"} /\ hdr /\ ThreeDashesExpected(s) -> HMinusHdr(s, k, line)
    [] c \in {"renfrom", "copyfrom"} /\ hdr -> HMinusHdr(s, k, line)
    [] c \in {"ppp", "rento", "copyto", "plus3"} /\ hdr -> HPlusHdr(s, k, line)
    [] c = "hh" /\ s.st # "MergeConflict" -> HHunkHeader(s, k, line)
    [] c \in {"oldmode", "newmode"} -> HMode(s, k, line)
    [] c = "binary" -> HBinary(s, k, line)
    [] c = "onlyin" /\ s.src = "DiffU" -> HOnlyIn(s, k, line)
    [] c = "sublog" -> HSubLog(s, k, line)
    [] ~ColorOnly /\ ((c = "subm" /\ s.st = "HunkHeader") \/ (c = "subp" /\ s.st = "SubmoduleShort")) -> HSubShort(s, k, line)
    [] ClaimsConflict(s, line) -> HConflict(s, k, line)
    [] s.st \in HunkStates -> HHunkLine(s, k, line)
    [] OTHER -> FallThrough(s, k)

Step(s, k, line) == StepD(Detect(PendSub(s, line.c # "subp"), line), k, line)

\* end of input: handle_pending_line_with_diff_name; paint_buffered...; emit
Finish(s) == LET p == PendSub(s, TRUE) IN Emit(Flush(Pending(p)))

\* everything but the bytes already written.  (The painter's language and highlighter survive a "diff"
\* line; they are replaced by the section's own ---/+++ and @@ lines before any line is highlighted:
\* that is the invariant LanguageByName, so they are not part of what a section start must reset.)
Rest(s) == [s EXCEPT !.w = <<>>, !.sy = <<>>, !.syn = 0, !.hl = 0]
=============================================================================
