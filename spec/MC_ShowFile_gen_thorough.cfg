SPECIFICATION Spec
CONSTANTS
  MaxLen = 6
  Sticky = TRUE
INVARIANTS Laws EmitAll
CHECK_DEADLOCK FALSE
