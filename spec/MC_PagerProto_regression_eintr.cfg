SPECIFICATION Spec
CONSTANTS
  N = 3
  Cap = 2
  Quit = 4
  Stay = FALSE
  WaitsForPager = TRUE
  RetriesShort = TRUE
  RetriesEINTR = FALSE
INVARIANTS Quiet
CHECK_DEADLOCK FALSE
