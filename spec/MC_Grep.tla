------------------------------- MODULE MC_Grep -------------------------------
(* Design level for C16: every stream of records within the bound, both output styles.      *)
EXTENDS Grep, TLC, Json
CONSTANTS NP, MaxLen, Nums
VARIABLE recs
Types == {"match", "context", "header"}
Init == recs = <<>>
Next == Len(recs) < MaxLen /\ \E p \in 1..NP, n \in Nums, t \in Types : recs' = Append(recs, [p |-> p, n |-> n, t |-> t])
Spec == Init /\ [][Next]_recs
Laws == /\ \A style \in {"classic", "ripgrep"} : OnceInOrder(recs, Rows(style, recs))
        /\ Grouped(recs, Rows("ripgrep", recs))
        /\ HeaderOncePerRun(recs, Rows("ripgrep", recs))
        /\ SepOnlyAtGaps(recs, Rows("ripgrep", recs))
=============================================================================
