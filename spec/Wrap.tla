-------------------------------- MODULE Wrap --------------------------------
(* Transcription of src/wrapping.rs::wrap_line (the stack machine that wraps one line of  *)
(* styled sections into rows of a panel) and the laws a reader relies on.                  *)
(* A text is a sequence of grapheme widths (1 narrow, 2 double-width); the line's final     *)
(* "\n" is the grapheme of width 0.  A line is a sequence of sections (each a text): the     *)
(* same text is cut into sections differently by syntax highlighting and by diff            *)
(* emphasis, and both cuts are wrapped independently - they must agree.                     *)
(* Rows are sequences of items: grapheme widths, and SYM for an inserted wrap symbol.        *)
EXTENDS Naturals, Sequences, FiniteSets

CONSTANTS FixNoProgress    \* TRUE: the repaired loop (stops when nothing fits an empty row and there is no line limit)

SYM == 9
SymW == 1                  \* INLINE_SYMBOL_WIDTH_1
NL == <<0>>

RECURSIVE SumW(_)
SumW(t) == IF t = <<>> THEN 0 ELSE (IF Head(t) = SYM THEN SymW ELSE Head(t)) + SumW(Tail(t))
Monus(a, b) == IF a > b THEN a - b ELSE 0

\* graphemes taken from the front of t while they fit into `left` columns: number taken
RECURSIVE Take(_, _, _)
Take(t, left, n) == IF n < Len(t) /\ left >= t[n + 1] THEN Take(t, left - t[n + 1], n + 1) ELSE n

(* One iteration of the loop.  State: [stack, cur, len, res, stop, fuel].                      *)
(* stack: sections still to place (first = top); cur/len: the row being assembled;            *)
(* res: finished rows; stop: "" | "empty" | "limit".  W line width, M max_lines (0 = no limit). *)
LimitReached(s, M) == M > 0 /\ Len(s.res) + 1 >= M
Step(s, W, M) ==
  IF s.stack = <<>> THEN [s EXCEPT !.stop = "empty"]
  ELSE IF LimitReached(s, M) THEN [s EXCEPT !.stop = "limit"]
  ELSE
    LET text == Head(s.stack) rest == Tail(s.stack)
        gw == SumW(text) newLen == s.len + gw
        fits == \/ newLen < W
                \/ (newLen = W /\ rest = <<>>)
        fitsWithNL == newLen = W /\ Len(rest) = 1 /\ rest[1] = NL
    IN IF fits THEN [s EXCEPT !.stack = rest, !.cur = @ \o text, !.len = newLen]
       ELSE IF fitsWithNL THEN [s EXCEPT !.stack = <<>>, !.cur = @ \o text \o NL, !.len = newLen]
       ELSE \* must split
         LET widthLeft == Monus(Monus(gw, newLen - W), SymW)
             n == IF widthLeft = 0 THEN 0 ELSE Take(text, widthLeft, 0)
             noProgress == n = 0 /\ s.len = 0
         IN IF FixNoProgress /\ widthLeft # 0 /\ noProgress /\ M = 0
            THEN [s EXCEPT !.stop = "limit", !.cur = <<>>, !.len = 0]          \* stack unchanged: text stays on top
            ELSE [s EXCEPT !.stack = <<SubSeq(text, n + 1, Len(text))>> \o rest,
                           !.res = Append(@, s.cur \o SubSeq(text, 1, n) \o <<SYM>>),
                           !.cur = <<>>, !.len = 0]

RECURSIVE Run(_, _, _)
Run(s, W, M) == IF s.stop # "" \/ s.fuel = 0 THEN s ELSE Run([Step(s, W, M) EXCEPT !.fuel = s.fuel - 1], W, M)

RECURSIVE Flat(_)
Flat(ss) == IF ss = <<>> THEN <<>> ELSE Head(ss) \o Flat(Tail(ss))

\* what is left is added to the last row (and truncated later by the panel code)
Finish(s, M) ==
  LET r1 == IF s.len > 0 THEN Append(s.res, s.cur) ELSE s.res
      r2 == IF s.stop = "limit" /\ Len(r1) # M THEN Append(r1, <<>>) ELSE r1
      r3 == IF s.stack # <<>> THEN (IF r2 = <<>> THEN <<Flat(s.stack)>>
                                    ELSE [r2 EXCEPT ![Len(r2)] = @ \o Flat(s.stack)]) ELSE r2
  IN r3

WrapLine(sections, W, M, fuel) ==
  LET maxLines == IF W <= SymW THEN 1 ELSE M
      s == Run([stack |-> sections, cur |-> <<>>, len |-> 0, res |-> <<>>, stop |-> "", fuel |-> fuel], W, maxLines)
  IN [rows |-> Finish(s, maxLines), terminated |-> s.stop # "", stop |-> s.stop]

\* ---------------- laws ----------------
NoSym(row) == SelectSeq(row, LAMBDA x : x # SYM /\ x # 0)       \* visible graphemes (not the symbol, not the newline)
RECURSIVE JoinRows(_)
JoinRows(rows) == IF rows = <<>> THEN <<>> ELSE NoSym(Head(rows)) \o JoinRows(Tail(rows))
\* joining the fragments (wrap symbols removed) gives back the line
Lossless(sections, r) == JoinRows(r.rows) = SelectSeq(Flat(sections), LAMBDA x : x # 0)
\* every row fits, except that the last one may be over-long when the row limit cut wrapping short
RowsFit(r, W) == \A i \in DOMAIN r.rows : i = Len(r.rows) \/ SumW(r.rows[i]) <= W
\* a wrap symbol ends every row but the last, and occurs nowhere else
SymbolsRight(r) == \A i \in DOMAIN r.rows : \A j \in DOMAIN r.rows[i] :
                      (r.rows[i][j] = SYM) <=> (j = Len(r.rows[i]) /\ i < Len(r.rows))
\* every row but the last shows some text (otherwise wrapping makes no progress)
Progress(r) == \A i \in DOMAIN r.rows : i < Len(r.rows) => NoSym(r.rows[i]) # <<>>
=============================================================================
