SPECIFICATION Spec
CONSTANTS
  SortedFlags = FALSE
  Emit = FALSE
INVARIANTS WithinDocumented Deterministic
CHECK_DEADLOCK FALSE
