SPECIFICATION Spec
CONSTANTS
  NoGitRec = TRUE
  SortedFlags = FALSE
  Emit = FALSE
INVARIANTS WithinDocumented Deterministic LnRight
CHECK_DEADLOCK FALSE
