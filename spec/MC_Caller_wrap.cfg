SPECIFICATION Spec
CONSTANTS
  BgChecksSource = TRUE
  SetFirst = TRUE
  NQ = 3
INVARIANTS Safe Schedules
PROPERTIES QueriesReturn BgFinishes
CHECK_DEADLOCK FALSE
