SPECIFICATION Spec
CONSTANTS
  NF = 1
  MaxLen = 60
  Kinds = {"mod", "modeonly", "add"}
  MaxHunks = 2
  MaxBody = 6
  Preamble = TRUE
  MaxConf = 1
  Buf = 2
  Fixes = {"D1", "D14", "D2", "D18", "D19", "D20", "D21", "D23", "D24", "D25"}
  ColorOnly = FALSE
  Modes = {}
VIEW View
ACTION_CONSTRAINT Edge
CHECK_DEADLOCK FALSE
