------------------------------ MODULE MC_Pager ------------------------------
(* Fault enumeration: every scenario of the space, printed for replay; invariants check    *)
(* that the expectation operators are total and consistent on the whole space.              *)
EXTENDS Pager, TLC, Json
CONSTANTS MaxWrites, Statuses, WriteFaultAt
VARIABLES sc, done
vars == <<sc, done>>
Sources == SUBSET {"config", "delta", "bat", "pager"}
Base == [stay : {FALSE}, big : {FALSE}, how : {"files"}, bare : {FALSE}, wf : {"none"}, wat : {0}, noisy : {FALSE}]
Join(S, T) == {s @@ t : s \in S, t \in T}
Scenarios ==
  Join([mode : {"stdin"}, out : {"stdout"}, quit : 0..MaxWrites, status : {0}, src : {{}}, pagerval : {"envpager"}], Base)
  \cup Join([mode : {"stdin"}, out : {"pager"}, quit : {0, 1, 10, 5000}, status : {0}, src : Sources,
        pagerval : {"envpager", "more", "less -F"}], Base)
  \cup Join([mode : {"diff", "wrap"}, out : {"stdout"}, quit : {0, 1, 3}, status : Statuses, src : {{}}, pagerval : {"envpager"}], Base)
  \cup Join([mode : {"diff", "wrap"}, out : {"pager"}, quit : {0, 10}, status : Statuses, src : {{"config"}, {}}, pagerval : {"envpager"}], Base)
  \* a pager that stops reading but stays alive, with more output than the pipe holds / that fits into it
  \cup [mode : {"stdin", "wrap"}, out : {"pager"}, quit : {1, 10, 5000}, status : {0}, src : {{}, {"config"}, {"pager"}},
        pagerval : {"envpager"}, stay : {TRUE}, big : BOOLEAN, how : {"files"}, bare : {FALSE}, wf : {"none"}, wat : {0}, noisy : {FALSE}]
  \* informational output with a reader that goes away
  \cup Join([mode : {"showconfig", "version"}, out : {"stdout"}, quit : 0..3, status : {0}, src : {{}}, pagerval : {"envpager"}], Base)
  \* two-file mode: the same path twice; an option the differ rejects
  \cup [mode : {"diff"}, out : {"stdout", "pager"}, quit : {0}, status : {0, 2}, src : {{}}, pagerval : {"envpager"},
        stay : {FALSE}, big : {FALSE}, how : {"samepath", "badopt"}, bare : {FALSE}, wf : {"none"}, wat : {0}, noisy : {FALSE}]
  \* an explicitly configured bare `less`
  \cup [mode : {"stdin"}, out : {"pager"}, quit : {0, 10}, status : {0}, src : {{"config"}, {"delta"}, {"config", "delta", "pager"}, {"delta", "bat"}},
        pagerval : {"envpager", "less -F"}, stay : {FALSE}, big : {FALSE}, how : {"files"}, bare : {TRUE}, wf : {"none"}, wat : {0}, noisy : {FALSE}]
  \* the consumer stays, but a write call is disturbed: it takes only a part of what it was given ("short": once at the
  \* wat-th call, "shortall": from then on every time), or fails with EINTR before taking anything ("eintr").  Nothing may
  \* be lost, nothing may be reported.
  \cup [mode : {"stdin"}, out : {"stdout", "pager"}, quit : {0}, status : {0}, src : {{}}, pagerval : {"envpager"},
        stay : {FALSE}, big : BOOLEAN, how : {"files"}, bare : {FALSE}, wf : {"short", "shortall", "eintr"}, wat : WriteFaultAt, noisy : {FALSE}]
  \cup [mode : {"diff", "wrap"}, out : {"stdout", "pager"}, quit : {0}, status : {1}, src : {{}}, pagerval : {"envpager"},
        stay : {FALSE}, big : BOOLEAN, how : {"files"}, bare : {FALSE}, wf : {"short", "shortall", "eintr"}, wat : WriteFaultAt, noisy : {FALSE}]
  \* the program delta starts talks on stderr (a differ with tracing on, a wrapped command that writes 4 000 lines there first)
  \cup [mode : {"diff", "wrap"}, out : {"stdout", "pager"}, quit : {0}, status : Statuses, src : {{}, {"config"}}, pagerval : {"envpager"},
        stay : {FALSE}, big : {FALSE}, how : {"files"}, bare : {FALSE}, wf : {"none"}, wat : {0}, noisy : {TRUE}]
Init == sc \in Scenarios /\ done = FALSE
Next == ~done /\ done' = TRUE /\ UNCHANGED sc
Spec == Init /\ [][Next]_vars
Total == WantExit(sc) \in 0..255 /\ Chosen(sc) \in {"mypager", "otherpager", "batpager", "envpager", "less"}
NoQuitNoLoss == (sc.quit = 0 /\ sc.wf # "none") => WantExit(sc) = NormalExit(sc) /\ DeliveredOK(sc, 7, 7, 1, 1) /\ ~DeliveredOK(sc, 6, 7, 1, 1)
QuitIsQuiet == sc.quit > 0 => WantExit(sc) = 0 /\ WantQuiet(sc)
Replay == done \/ PrintT(<<"REPLAY", ToJson([mode |-> sc.mode, out |-> sc.out, quit |-> sc.quit, status |-> sc.status,
                                             src |-> [x \in {"config", "delta", "bat", "pager"} |-> x \in sc.src],
                                             pagerval |-> sc.pagerval, stay |-> sc.stay, big |-> sc.big, how |-> sc.how, bare |-> sc.bare, wf |-> sc.wf, wat |-> sc.wat, noisy |-> sc.noisy])>>)
=============================================================================
