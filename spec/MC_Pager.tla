------------------------------ MODULE MC_Pager ------------------------------
(* Fault enumeration: every scenario of the space, printed for replay; invariants check    *)
(* that the expectation operators are total and consistent on the whole space.              *)
EXTENDS Pager, TLC, Json
CONSTANTS MaxWrites, Statuses
VARIABLES sc, done
vars == <<sc, done>>
Sources == SUBSET {"config", "delta", "bat", "pager"}
Scenarios ==
  [mode : {"stdin"}, out : {"stdout"}, quit : 0..MaxWrites, status : {0}, src : {{}}, pagerval : {"envpager"}]
  \cup [mode : {"stdin"}, out : {"pager"}, quit : {0, 1, 10, 5000}, status : {0}, src : Sources,
        pagerval : {"envpager", "more", "less -F"}]
  \cup [mode : {"diff", "wrap"}, out : {"stdout"}, quit : {0, 1, 3}, status : Statuses, src : {{}}, pagerval : {"envpager"}]
  \cup [mode : {"diff", "wrap"}, out : {"pager"}, quit : {0, 10}, status : Statuses, src : {{"config"}, {}}, pagerval : {"envpager"}]
Init == sc \in Scenarios /\ done = FALSE
Next == ~done /\ done' = TRUE /\ UNCHANGED sc
Spec == Init /\ [][Next]_vars
Total == WantExit(sc) \in 0..255 /\ Chosen(sc) \in {"mypager", "otherpager", "batpager", "envpager", "less"}
QuitIsQuiet == sc.quit > 0 => WantExit(sc) = 0 /\ WantQuiet(sc)
Replay == done \/ PrintT(<<"REPLAY", ToJson([mode |-> sc.mode, out |-> sc.out, quit |-> sc.quit, status |-> sc.status,
                                             src |-> [x \in {"config", "delta", "bat", "pager"} |-> x \in sc.src],
                                             pagerval |-> sc.pagerval])>>)
=============================================================================
