SPECIFICATION Spec
CONSTANTS
  NP = 2
  MaxLen = 4
  Nums = {0, 1, 2, 4}
INVARIANTS Laws
CHECK_DEADLOCK FALSE
