------------------------------ MODULE Trace_Lag ------------------------------
(* C11: streaming.  One event per run of the real binary fed line by line:                *)
(*   [run, B, cls, seen, pre, n]                                                          *)
(*   cls[k]   class of input line k                                                       *)
(*   seen[k]  rows (<<bid, hasMinus, hasPlus, hasZero, blank>>) observable on stdout once  *)
(*            delta is asleep waiting for line k+1  (k = 1..n; index 1 = after line 1)     *)
(*   pre[k]   rows delta writes for the first k lines as a complete input (separate run)   *)
(* Laws, for every k:                                                                      *)
(*   Prefix   seen[k] is a prefix of pre[k]  (output is never revised or reordered later;  *)
(*            that it is a prefix of the final output holds physically for a pipe)        *)
(*   Lag      if line k is a hunk line (or a commit line): the rows of pre[k] not yet in seen[k] *)
(*            are only removed/added rows, at most B+1 of each                             *)
EXTENDS Naturals, Sequences, FiniteSets, TLC, Json, IOUtils

Rec == ndJsonDeserialize(IOEnv.TRACE)
VARIABLES l, failed
vars == <<l, failed>>

IsPrefix(a, b) == Len(a) <= Len(b) /\ \A i \in DOMAIN a : a[i][1] = b[i][1]
\* (the statement speaks of prefixes that end inside a hunk; after a commit line everything before it is out as
\* well.  Free text or an empty line after a section whose header is still owed - a mode change waiting for its
\* ---/+++ lines - says nothing: the header rightly waits for the next section or the end of input.)
Constrained == {"minus", "plus", "zero", "nonl", "commit"}

LagOK(e, k) ==
  LET held == SubSeq(e.pre[k], Len(e.seen[k]) + 1, Len(e.pre[k])) IN
  /\ \A i \in DOMAIN held : held[i][4] = 0 /\ (held[i][2] = 1 \/ held[i][3] = 1 \/ held[i][5] = 1)
  /\ Cardinality({i \in DOMAIN held : held[i][2] = 1}) <= e.B + 1
  /\ Cardinality({i \in DOMAIN held : held[i][3] = 1}) <= e.B + 1

Bad(e) == {k \in 1..e.n : \/ ~IsPrefix(e.seen[k], e.pre[k])
                           \/ (e.cls[k] \in Constrained /\ ~LagOK(e, k))}

Init == l = 1 /\ failed = <<>>
Next == /\ l <= Len(Rec)
        /\ l' = l + 1
        /\ LET e == Rec[l] b == Bad(e) IN
             failed' = IF b = {} THEN failed
                       ELSE LET k == CHOOSE k \in b : \A j \in b : k <= j IN
                            Append(failed, [run |-> e.run, k |-> k,
                                            why |-> IF ~IsPrefix(e.seen[k], e.pre[k]) THEN "revised" ELSE "lag"])
Spec == Init /\ [][Next]_vars
Done == l <= Len(Rec) \/ PrintT(<<"VERDICT", ToJson(failed)>>)
=============================================================================
