----------------------------- MODULE MC_Stream -----------------------------
(* Design-level check: for every input history the git environment can produce within    *)
(* the bounds, the implementation-shaped model satisfies the property-level spec.  Every *)
(* state is a history (the input may end anywhere), so the end-of-input laws are checked *)
(* in every state.  Also emits the histories as behaviours to replay into the real code. *)
EXTENDS Naturals, Sequences, FiniteSets, TLC, Json

CONSTANTS NF, MaxLen, Kinds, MaxHunks, MaxBody, Preamble, MaxConf, Buf, Fixes, ColorOnly, Modes, ReplayLen

VARIABLES hist, gs, s

E == INSTANCE Env_Git
I == INSTANCE Impl_Stream
O == INSTANCE Obs_Stream

vars == <<hist, gs, s>>

Init == hist = <<>> /\ gs = E!GInit /\ s = I!InitS
Next == /\ E!GNext
        /\ s' = I!Step(s, Len(hist'), hist'[Len(hist')])
Spec == Init /\ [][Next]_vars

Final == I!Finish(s).w

\* C01 / C04 / C14 (order, once, own section): the rows of the complete run are the expected ones
Cex(name) == PrintT(<<"CEX", ToJson([inv |-> name, h |-> hist])>>) /\ FALSE
\* (word-diff mode: a hunk line has no marker column and no role; it is shown as it came - a raw row - once, in place)
ExpectedM == LET e == O!Expected(hist) IN
             IF "word-diff" \in Modes THEN [i \in DOMAIN e |-> IF e[i].t \in O!BodyC THEN O!Row("raw", e[i].k, <<>>) ELSE e[i]] ELSE e
RowsOnceInOrder == O!SameRowsOpt(ExpectedM, Final) \/ Cex("RowsOnceInOrder")

\* C14: a renamed binary file with changes is reported as binary - by its header or by its "Binary files" line
BinReported == (\A k \in DOMAIN hist :
                  (hist[k].c = "binary" /\ O!SecStart(hist, k) > 0 /\ hist[O!SecStart(hist, k)].kd = "renbin") =>
                    \E i \in DOMAIN Final : \/ (Final[i].t = "raw" /\ Final[i].k = k)
                                             \/ (Final[i].t = "fileHdr" /\ Final[i].k = O!SecStart(hist, k) /\ Final[i].d # <<>> /\ Final[i].d[5]))
               \/ Cex("BinReported")

\* C15: every hunk line is highlighted in the language its own file's name selects
LanguageByName == O!LanguageByName(hist, I!Finish(s).sy) \/ Cex("LanguageByName")

\* C02: in color-only mode the output has one row per input line, in order
LineForLine == ~ColorOnly \/ O!COLines(hist, Final) \/ Cex("LineForLine")

\* C11: bounded lag and never revised
Lag == O!LagOK(hist, s.w, Buf) \/ Cex("Lag")
PrefixStable == O!IsPrefixOf(s.w, Final) \/ Cex("PrefixStable")
NeverRevised == [][O!IsPrefixOf(s.w, s'.w)]_vars

\* C10: a "diff" line makes delta do what end of input would have done, then start afresh:
\* by induction Run(A \o B) = Run(A) \o Run(B) for every history A and complete sections B.
Boundary ==
  \/ gs.conf # ""        \* (inside an unterminated conflict region the input is not a sequence of complete sections)
  \/ \A kd \in Kinds, f \in 1..NF, g \in 1..NF :
     ((kd \in {"rename", "renmod", "copy", "renmode"}) <=> (f # g)) =>
       LET d == [c |-> "diff", f |-> f, g |-> g, kd |-> kd]
           k == Len(hist) + 1
           a == I!Step(s, k, d)
           b == I!Step(I!InitS, k, d)
       IN /\ I!Rest(a) = I!Rest(b)
          /\ a.w = Final \o b.w
  \/ Cex("Boundary")

Replay == Len(hist) = 0 \/ Len(hist) > ReplayLen \/ PrintT(<<"REPLAY", ToJson([h |-> hist, done |-> E!Complete(gs), rows |-> [i \in DOMAIN Final |-> <<Final[i].t, Final[i].k>>]])>>)

\* complete single sections (for the concatenation law of C10)
NDiff == Cardinality({i \in DOMAIN hist : hist[i].c \in {"diff", "sublog"}})     \* section starts
OneSection == NDiff <= 1
ReplaySections == ~(NDiff = 1 /\ E!Complete(gs) /\ Len(hist) <= ReplayLen)
                  \/ PrintT(<<"SECTION", ToJson(hist)>>)
=============================================================================
