------------------------------ MODULE MC_Blame ------------------------------
(* Design level: the colour memo satisfies the laws for every key sequence in bound and   *)
(* every palette size; also emits the sequences (with predicted colours) for replay.       *)
EXTENDS Blame, TLC, Json
CONSTANTS NK, MaxLen, Palettes, ReplayLen
VARIABLES ks, P
vars == <<ks, P>>
Init == ks = <<>> /\ P \in Palettes
Next == Len(ks) < MaxLen /\ \E k \in 1..NK : ks' = Append(ks, k) /\ UNCHANGED P
Spec == Init /\ [][Next]_vars
LawsHold == Laws(ks, Colours(NK, P, ks))
\* colours stay inside the palette
InPalette == \A i \in DOMAIN ks : Colours(NK, P, ks)[i] \in 1..P
Replay == Len(ks) = 0 \/ Len(ks) > ReplayLen
          \/ PrintT(<<"REPLAY", ToJson([ks |-> ks, P |-> P, cs |-> Colours(NK, P, ks)])>>)
\* regression: a memo that ignores the collision rule must be rejected
BrokenColours == [i \in DOMAIN ks |-> ((ks[i] - 1) % P) + 1]
Regression == Laws(ks, BrokenColours)
=============================================================================
