------------------------------ MODULE MC_Blame ------------------------------
(* Design level: the colour memo satisfies the laws for every key sequence in bound and   *)
(* every palette size; also emits the sequences (with predicted colours) for replay.       *)
EXTENDS Blame, TLC, Json
CONSTANTS NK, MaxLen, Palettes, ReplayLen
VARIABLES ks, P, gs
vars == <<ks, P, gs>>
Init == ks = <<>> /\ P \in Palettes /\ gs = <<>>
Next == Len(ks) < MaxLen /\ \E k \in 1..NK : ks' = Append(ks, k) /\ UNCHANGED <<P, gs>>
Spec == Init /\ [][Next]_vars
LawsHold == Laws(ks, Colours(NK, P, ks))
\* colours stay inside the palette
InPalette == \A i \in DOMAIN ks : Colours(NK, P, ks)[i] \in 1..P
Replay == Len(ks) = 0 \/ Len(ks) > ReplayLen
          \/ PrintT(<<"REPLAY", ToJson([ks |-> ks, P |-> P, cs |-> Colours(NK, P, ks)])>>)
\* streams in which git coloured some lines itself: totality and the neighbour laws (separate, smaller bound)
CONSTANTS GitColoured, BlameFixed
GInit == ks = <<>> /\ gs = <<>> /\ P \in Palettes
GNext == Len(ks) < MaxLen /\ \E k \in 1..NK, g \in (IF GitColoured THEN BOOLEAN ELSE {FALSE}) :
            ks' = Append(ks, k) /\ gs' = Append(gs, g) /\ UNCHANGED P
GSpec == GInit /\ [][GNext]_<<ks, P, gs>>
GTotal == TotalG(P, ks, gs, ColoursG(NK, P, ks, gs, BlameFixed))
GLaws == LawsG(ks, gs, ColoursG(NK, P, ks, gs, BlameFixed))
GSame == (\A i \in DOMAIN gs : ~gs[i]) => ColoursG(NK, P, ks, gs, BlameFixed) = Colours(NK, P, ks)     \* conservative extension
GReplay == Len(ks) = 0 \/ Len(ks) > ReplayLen \/ ~(\E i \in DOMAIN gs : gs[i])
           \/ PrintT(<<"REPLAYG", ToJson([ks |-> ks, gs |-> gs, P |-> P, cs |-> ColoursG(NK, P, ks, gs, BlameFixed)])>>)
\* regression: a memo that ignores the collision rule must be rejected
BrokenColours == [i \in DOMAIN ks |-> ((ks[i] - 1) % P) + 1]
Regression == Laws(ks, BrokenColours)
=============================================================================
