SPECIFICATION Spec
CONSTANTS
  GitColoured = FALSE
  BlameFixed = TRUE
  NK = 4
  MaxLen = 7
  Palettes = {2, 3, 4}
  ReplayLen = 0
INVARIANTS Regression
CHECK_DEADLOCK FALSE
