------------------------------ MODULE Trace_Rel ------------------------------
(* Relational laws between runs of the real binary, judged on sequences of row ids (the  *)
(* harness interns each output row's bytes; equality of bytes = equality of ids).         *)
(*   kind "concat"  C10: rows(A \o B) = rows(A) \o rows(B)                                *)
(*   kind "equal"   C10 determinism, C19 transparency, C08: x = y                         *)
(*   kind "equalx"  C08: x[i] = y[i] except at exempt positions, where y[i] = z[i]        *)
(*                  (x plain run, y coloured run, z ids of the coloured input lines that  *)
(*                  the row passes through, 0 if none; ex = exempt flags)                 *)
(*   kind "equalp"  C08: plain run x, coloured run y: row i must be identical in both     *)
(*                  runs, unless in both it is the pass-through of the same input line k  *)
(*                  (kx[i] = ky[i] = k: the row begins with the bytes of plain resp.      *)
(*                  coloured input line k) followed by the same decoration (rx[i] =       *)
(*                  ry[i]): raw-styled elements and passed-through text keep the input's  *)
(*                  colours                                                               *)
(*   kind "fgonly"  C15: two renderings x, y of the same input (cells <<char, fg, bg,        *)
(*                  attrs>>) may differ in foreground colour only, and not even there on     *)
(*                  cells whose background is in nosyn (painted with a style without         *)
(*                  'syntax'); strict = TRUE: no difference at all (file renamed to another    *)
(*                  name of the same kind)                                                   *)
(*   kind "fgwhere" C15: x = rendering under a theme, y = under theme none, z = mask (1 where a third run, in which the   *)
(*                  style under test carries a marker attribute, shows that marker): characters, backgrounds and        *)
(*                  attributes equal everywhere; where the mask is set (text painted with a style that does not ask     *)
(*                  for 'syntax') the foreground is equal too                                                            *)
(*   kind "cells"   C08 moved lines: the rendition of every character of the output row   *)
(*                  (y: <<char, fg, bg, attrs>>) equals that of the input line (x)         *)
EXTENDS Naturals, Sequences, FiniteSets, TLC, Json, IOUtils

Rec == ndJsonDeserialize(IOEnv.TRACE)
VARIABLES l, failed
vars == <<l, failed>>

FirstDiff(a, b) == LET n == IF Len(a) < Len(b) THEN Len(a) ELSE Len(b)
                       d == {i \in 1..n : a[i] # b[i]}
                   IN IF d # {} THEN CHOOSE i \in d : \A j \in d : i <= j
                      ELSE IF Len(a) # Len(b) THEN n + 1 ELSE 0

Judge(e) ==
  CASE e.kind = "concat" -> FirstDiff(e.x \o e.y, e.z)
    [] e.kind = "equal"  -> FirstDiff(e.x, e.y)
    [] e.kind = "cells"  -> FirstDiff(e.x, e.y)
    [] e.kind = "fgonly" ->
         IF Len(e.x) # Len(e.y) THEN (IF Len(e.x) < Len(e.y) THEN Len(e.x) ELSE Len(e.y)) + 1
         ELSE LET bad == {i \in DOMAIN e.x :
                            \/ e.x[i][1] # e.y[i][1] \/ e.x[i][3] # e.y[i][3] \/ e.x[i][4] # e.y[i][4]
                            \/ (e.x[i][2] # e.y[i][2] /\ (e.strict \/ \E k \in DOMAIN e.nosyn : e.nosyn[k] = e.x[i][3]))}
              IN IF bad = {} THEN 0 ELSE CHOOSE i \in bad : \A j \in bad : i <= j
    [] e.kind = "fgwhere" ->
         IF Len(e.x) # Len(e.y) \/ Len(e.x) # Len(e.z) THEN (IF Len(e.x) < Len(e.y) THEN Len(e.x) ELSE Len(e.y)) + 1
         ELSE LET bad == {i \in DOMAIN e.x :
                            \/ e.x[i][1] # e.y[i][1] \/ e.x[i][3] # e.y[i][3] \/ e.x[i][4] # e.y[i][4]
                            \/ (e.z[i] = 1 /\ e.x[i][2] # e.y[i][2])}
              IN IF bad = {} THEN 0 ELSE CHOOSE i \in bad : \A j \in bad : i <= j
    [] e.kind = "equalp" ->
         IF Len(e.x) # Len(e.y) THEN (IF Len(e.x) < Len(e.y) THEN Len(e.x) ELSE Len(e.y)) + 1
         ELSE LET bad == {i \in DOMAIN e.x : e.x[i] # e.y[i] /\
                            ~(e.kx[i] # 0 /\ e.kx[i] = e.ky[i] /\ e.rx[i] = e.ry[i])}
              IN IF bad = {} THEN 0 ELSE CHOOSE i \in bad : \A j \in bad : i <= j
    [] e.kind = "equalx" ->
         IF Len(e.x) # Len(e.y) THEN (IF Len(e.x) < Len(e.y) THEN Len(e.x) ELSE Len(e.y)) + 1
         ELSE LET bad == {i \in DOMAIN e.x : IF e.ex[i] THEN e.y[i] # e.z[i] ELSE e.x[i] # e.y[i]}
              IN IF bad = {} THEN 0 ELSE CHOOSE i \in bad : \A j \in bad : i <= j

Init == l = 1 /\ failed = <<>>
Next == /\ l <= Len(Rec)
        /\ l' = l + 1
        /\ LET e == Rec[l] v == Judge(e) IN
             failed' = IF v = 0 THEN failed ELSE Append(failed, [run |-> e.run, kind |-> e.kind, at |-> v])
Spec == Init /\ [][Next]_vars
Done == l <= Len(Rec) \/ PrintT(<<"VERDICT", ToJson(failed)>>)
=============================================================================
