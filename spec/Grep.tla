-------------------------------- MODULE Grep --------------------------------
(* C16, implementation-shaped: the grep handler's little state machine                      *)
(* (src/handlers/grep.rs handle_grep_line): what it remembers of the previous hit - path,   *)
(* line type, line number - and what it writes for the next one in the two output styles.   *)
(* A record is [p, n, t]: path id, line number (0 = none), type "match" | "context" |        *)
(* "header" (function context, `git grep -W`).  Rows written are [k, i]: kind "blank"        *)
(* (the empty row between files), "path" (file header of the ripgrep style), "sep" ("--"),   *)
(* "hit"; i = index of the record the row belongs to.                                         *)
EXTENDS Naturals, Sequences, FiniteSets

\* previous hit: [p, n, t], p = 0 before the first one
InitG == [p |-> 0, n |-> 0, t |-> ""]
\* Option<usize> comparison `previous_line < line_number.map(|n| n - 1)`: None sorts before Some
Jump(prev, r) == IF r.n = 0 THEN FALSE                  \* (Some(a) < None and None < None are false)
                 ELSE IF prev.n = 0 THEN TRUE           \* None < Some(x)
                 ELSE prev.n < (IF r.n = 0 THEN 0 ELSE r.n - 1)
NewPath(prev, r) == prev.p = 0 \/ prev.p # r.p
NewSection(prev, r) == ~NewPath(prev, r) /\ (prev.t = "context" \/ r.t = "context") /\ Jump(prev, r)

\* rows written for record number i
RowsFor(style, prev, r, i) ==
  IF style = "classic" THEN << [k |-> "hit", i |-> i] >>
  ELSE (IF NewPath(prev, r) THEN (IF prev.p = 0 THEN <<>> ELSE << [k |-> "blank", i |-> i] >>) \o << [k |-> "path", i |-> i] >> ELSE <<>>)
       \o (IF NewSection(prev, r) THEN << [k |-> "sep", i |-> i] >> ELSE <<>>)
       \o << [k |-> "hit", i |-> i] >>
RECURSIVE RunG(_, _, _, _)
RunG(style, recs, prev, i) == IF i > Len(recs) THEN <<>>
                              ELSE RowsFor(style, prev, recs[i], i) \o RunG(style, recs, [p |-> recs[i].p, n |-> recs[i].n, t |-> recs[i].t], i + 1)
Rows(style, recs) == RunG(style, recs, InitG, 1)

\* ------------------------------- Obs ---------------------------------------------
Hits(rows) == SelectSeq(rows, LAMBDA x : x.k = "hit")
\* every record is shown once, in order
OnceInOrder(recs, rows) == [j \in DOMAIN Hits(rows) |-> Hits(rows)[j].i] = [i \in 1..Len(recs) |-> i]
\* ripgrep style: a hit is grouped under the header of its own file: the nearest "path" row above it belongs to a
\* record of the same path, and no hit of another file lies in between
RECURSIVE HeaderAbove(_, _)
HeaderAbove(rows, j) == IF j = 0 THEN 0 ELSE IF rows[j].k = "path" THEN j ELSE HeaderAbove(rows, j - 1)
Grouped(recs, rows) ==
  \A j \in DOMAIN rows : rows[j].k = "hit" =>
     LET h == HeaderAbove(rows, j) IN
       /\ h # 0 /\ recs[rows[h].i].p = recs[rows[j].i].p
       /\ \A q \in h..j : rows[q].k = "hit" => recs[rows[q].i].p = recs[rows[j].i].p
\* one header per run of consecutive hits of a file (no file is announced twice in a row)
HeaderOncePerRun(recs, rows) ==
  \A j \in DOMAIN rows : rows[j].k = "path" =>
     (rows[j].i = 1 \/ recs[rows[j].i - 1].p # recs[rows[j].i].p)
\* a "--" separator stands only between two hits of one file whose numbers are not consecutive and of which one is context
SepOnlyAtGaps(recs, rows) ==
  \A j \in DOMAIN rows : rows[j].k = "sep" =>
     LET i == rows[j].i IN i > 1 /\ recs[i - 1].p = recs[i].p /\ "context" \in {recs[i - 1].t, recs[i].t}
                            /\ ~(recs[i].n # 0 /\ recs[i - 1].n # 0 /\ recs[i].n = recs[i - 1].n + 1)
=============================================================================
