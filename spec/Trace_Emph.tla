----------------------------- MODULE Trace_Emph -----------------------------
(* Trace validation for C06.  One event per rendered subhunk:                             *)
(*   [run, thr, re, ms, ps, rows]                                                         *)
(*   thr  maximum line distance in percent (0, 60, 100);  re  tokenisation ("w","dot","S") *)
(*   ms / ps  removed / added lines as rendered in unified view ([t, e, p])               *)
(*   rows     side-by-side rendering of the same subhunk: <<i, j>> per row (0 = empty      *)
(*            panel), used only to see which lines share a row                            *)
EXTENDS Obs_Emph, Edits, TLC, Json, IOUtils

Rec == ndJsonDeserialize(IOEnv.TRACE)
VARIABLES l, failed, drift
vars == <<l, failed, drift>>

\* The implementation-shaped model (Edits: tokenize, the alignment table with delta's costs, annotate, the greedy
\* pairing) run on the same subhunk: does it predict the pairing and every character's emphasis that the binary shows?
\* (drift report, never a verdict; characters shown in the whitespace-error style say nothing about emphasis)
MarksDiffer(obs, pred) == \/ Len(obs.e) # Len(pred.e)
                          \/ \E k \in DOMAIN obs.e : obs.e[k] # 2 /\ obs.e[k] # pred.e[k]
Drifts(e) ==
  \* (a run longer than the line buffer is flushed in pieces: Edits models one call of infer_edits)
  Len(e.ms) <= 33 /\ Len(e.ps) <= 33 /\
  LET R == InferEdits(e.re, e.thr, 0, [i \in DOMAIN e.ms |-> e.ms[i].t], [j \in DOMAIN e.ps |-> e.ps[j].t]) IN
  \/ \E i \in DOMAIN e.ms : MarksDiffer(e.ms[i], R.ms[i]) \/ ((\E k \in DOMAIN e.ms[i].e : e.ms[i].e[k] # 2) /\ e.ms[i].p # R.ms[i].p)
  \/ \E j \in DOMAIN e.ps : MarksDiffer(e.ps[j], R.ps[j]) \/ ((\E k \in DOMAIN e.ps[j].e : e.ps[j].e[k] # 2) /\ e.ps[j].p # R.ps[j].p)

Min(a, b) == IF a < b THEN a ELSE b
Paired(ls) == SelectSeq(ls, LAMBDA x : x.p)
\* pairing of a line is visible only if some character carries the plain / non-emph / emph style
Visible(x) == \E k \in DOMAIN x.e : x.e[k] # 2
NonEmpty(ls) == \A i \in DOMAIN ls : \E k \in DOMAIN ls[i].e : ls[i].e[k] # 2

Why(e) ==
  LET one == Len(e.ms) = 1 /\ Len(e.ps) = 1
      \* a 1 x 1 subhunk is a pair as soon as either line shows it
      both == one /\ (e.ms[1].p \/ e.ps[1].p)
      ms == IF both THEN <<[e.ms[1] EXCEPT !.p = TRUE]>> ELSE e.ms
      ps == IF both THEN <<[e.ps[1] EXCEPT !.p = TRUE]>> ELSE e.ps
      obs == one \/ (NonEmpty(ms) /\ NonEmpty(ps))
      pm == IF obs THEN Paired(ms) ELSE <<>>
      pp == IF obs THEN Paired(ps) ELSE <<>> IN
  \* unpaired lines carry no emphasis
  IF \E i \in DOMAIN ms : ~ms[i].p /\ ~NoEmph(ms[i]) THEN "emph-on-unpaired-minus"
  ELSE IF \E i \in DOMAIN ps : ~ps[i].p /\ ~NoEmph(ps[i]) THEN "emph-on-unpaired-plus"
  \* pairs never cross: the k-th paired removed line goes with the k-th paired added line
  ELSE IF obs /\ Len(pm) # Len(pp) THEN "pair-count"
  ELSE IF Len(pm) = Len(pp) /\ \E k \in DOMAIN pm : ~Sound(pm[k], pp[k]) THEN "unsound"
  ELSE IF Len(pm) = Len(pp) /\ \E k \in DOMAIN pm : Identical(pm[k], pp[k]) /\ ~(NoEmph(pm[k]) /\ NoEmph(pp[k]))
       THEN "emph-on-identical"
  ELSE IF Len(ms) = 1 /\ Len(ps) = 1 /\ ~SingleRun(e.re, ms[1], ps[1]) THEN "single-run"
  ELSE IF Len(ms) = 1 /\ Len(ps) = 1 /\ ~JoinedRun(e.re, ms[1], ps[1]) THEN "joined-run"
  \* threshold 1: i-th with i-th
  \* (a line whose pairing cannot be seen - empty, or only whitespace-error characters - is skipped)
  ELSE IF e.thr = 100 /\ \E i \in DOMAIN ms : Visible(ms[i]) /\ ms[i].p # (i <= Min(Len(ms), Len(ps))) THEN "dist1-minus"
  ELSE IF e.thr = 100 /\ \E i \in DOMAIN ps : Visible(ps[i]) /\ ps[i].p # (i <= Min(Len(ms), Len(ps))) THEN "dist1-plus"
  \* threshold 0: only lines that differ in nothing but whitespace are paired
  ELSE IF e.thr = 0 /\ Len(pm) = Len(pp) /\ \E k \in DOMAIN pm : NoSpace(pm[k].t) # NoSpace(pp[k].t) THEN "dist0"
  \* what shares a row in side-by-side view is what is shown as paired in unified view
  ELSE IF e.rows # <<>> /\ NonEmpty(ms) /\ NonEmpty(ps) /\
          \E r \in DOMAIN e.rows : LET i == e.rows[r][1] j == e.rows[r][2] IN
               \/ (i # 0 /\ j # 0 /\ ~(ms[i].p /\ ps[j].p))
               \/ (i # 0 /\ j = 0 /\ ms[i].p) \/ (i = 0 /\ j # 0 /\ ps[j].p) THEN "row-sharing"
  ELSE ""

Init == l = 1 /\ failed = <<>> /\ drift = <<>>
Next == /\ l <= Len(Rec)
        /\ l' = l + 1
        /\ LET e == Rec[l] w == Why(e) IN
             /\ failed' = IF w = "" THEN failed ELSE Append(failed, [run |-> e.run, why |-> w])
             /\ drift' = IF Drifts(e) THEN Append(drift, e.run) ELSE drift
Spec == Init /\ [][Next]_vars
Done == l <= Len(Rec) \/ (PrintT(<<"DRIFT", ToJson(drift)>>) /\ PrintT(<<"VERDICT", ToJson(failed)>>))
=============================================================================
