---------------------------- MODULE Trace_Blame ----------------------------
(* Trace validation for C17.  One event per blamed file rendered by the real binary:      *)
(*   [run, NK, P, ks, lines, rows, code]                                                  *)
(*   ks[i]    key (commit) of input line i;  lines[i] = [num, code]                       *)
(*   rows[i]  = [c, code, num, commit, author, time]: c = palette position of the row's    *)
(*              background (0: not a palette colour), code = id of the code text shown,    *)
(*              num = line number shown (0 blank), commit/author/time = which key's        *)
(*              metadata text the row shows (0 = blank)                                    *)
(*   gs[i]    TRUE iff input line i arrived in a colour of git's own (blame.coloring): delta  *)
(*            keeps that colour for the metadata, so the row's background is not from the     *)
(*            palette and the colour laws speak about its neighbours only                     *)
EXTENDS Blame, TLC, Json, IOUtils

Rec == ndJsonDeserialize(IOEnv.TRACE)
VARIABLES l, failed, drift
vars == <<l, failed, drift>>

Why(e) ==
  LET n == Len(e.ks) cs == [i \in DOMAIN e.rows |-> e.rows[i].c] IN
  IF e.code # 0 THEN "exit"
  ELSE IF Len(e.rows) # n THEN "row-count"
  ELSE IF \E i \in 1..n : e.rows[i].code # e.lines[i].code THEN "code-altered"
  ELSE IF \E i \in 1..n : e.rows[i].num # 0 /\ e.rows[i].num # e.lines[i].num THEN "line-number"
  ELSE IF \E i \in 1..n : e.rows[i].num = 0 /\ (i = 1 \/ e.ks[i] # e.ks[i - 1]) THEN "line-number-missing"
  ELSE IF \E i \in 1..n : \E x \in {e.rows[i].commit, e.rows[i].author, e.rows[i].time} : x # 0 /\ x # e.ks[i]
       THEN "wrong-attribution"
  ELSE IF \E i \in 1..n : (i = 1 \/ e.ks[i] # e.ks[i - 1]) /\
                            (e.rows[i].commit = 0 \/ e.rows[i].author = 0 \/ e.rows[i].time = 0) THEN "metadata-missing"
  ELSE IF \E i \in 1..n : ~e.gs[i] /\ cs[i] = 0 THEN "colour-not-from-palette"
  ELSE IF \E i \in 1..n : e.gs[i] THEN (IF LawsG(e.ks, e.gs, cs) THEN "" ELSE "colour-law-between-neighbours")
  ELSE IF ~SameKeySameColour(e.ks, cs) THEN "same-key-different-colour"
  ELSE IF ~ChangeChangesColour(e.ks, cs) THEN "colour-collision"
  ELSE IF ~ColourSticky(e.ks, cs) THEN "colour-not-sticky"
  ELSE ""

Drifts(e) == e.code = 0 /\ Len(e.rows) = Len(e.ks) /\
             LET m == ColoursG(e.NK, e.P, e.ks, e.gs, TRUE) IN \E i \in DOMAIN e.rows : ~e.gs[i] /\ e.rows[i].c # m[i]

Init == l = 1 /\ failed = <<>> /\ drift = <<>>
Next == /\ l <= Len(Rec)
        /\ l' = l + 1
        /\ LET e == Rec[l] w == Why(e) IN
             /\ failed' = IF w = "" THEN failed ELSE Append(failed, [run |-> e.run, why |-> w])
             /\ drift' = IF Drifts(e) THEN Append(drift, e.run) ELSE drift
Spec == Init /\ [][Next]_vars
Done == l <= Len(Rec) \/ (PrintT(<<"DRIFT", ToJson(drift)>>) /\ PrintT(<<"VERDICT", ToJson(failed)>>))
=============================================================================
