------------------------------ MODULE Env_Git ------------------------------
(* The environment of delta when it is git's pager: a nondeterministic generator of the  *)
(* line sequences `git log -p` / `git diff` / `git show` can emit, as typed abstract      *)
(* lines.  Every prefix of a generated sequence is itself a possible input (the producer *)
(* may stop, or be cut, anywhere).                                                        *)
(*                                                                                        *)
(* A line is a record [c, f, g, kd]:                                                      *)
(*   c  class name                                                                        *)
(*   f  file id of the (old) path the line names, 0 = none or /dev/null                   *)
(*   g  file id of the new path (diff / rename / copy / binary lines), 0 = none           *)
(*   kd on a "diff" line: the kind of section it opens ("" elsewhere)                     *)
EXTENDS Naturals, Sequences, FiniteSets

CONSTANTS NF,        \* number of distinct file ids
          MaxLen,    \* bound on the length of a history
          Kinds,     \* section kinds enabled
          MaxHunks,  \* hunks per section
          MaxBody,   \* body lines per hunk
          Preamble,  \* BOOLEAN: commit headers and free text are generated
          MaxConf    \* lines in each part of a conflict region (combined diffs)

VARIABLES hist, gs

Files == 1..NF

L(c, f, g) == [c |-> c, f |-> f, g |-> g, kd |-> ""]

\* Header lines that follow the "diff" line, per section kind.  f old path, g new path.
Template(kd, f, g) ==
  CASE kd = "mod"      -> << L("index", 0, 0), L("mmm", f, 0), L("ppp", f, 0) >>
    [] kd = "add"      -> << L("newfile", 0, 0), L("index", 0, 0), L("mmm", 0, 0), L("ppp", f, 0) >>
    [] kd = "addempty" -> << L("newfile", 0, 0), L("index", 0, 0) >>
    [] kd = "del"      -> << L("delfile", 0, 0), L("index", 0, 0), L("mmm", f, 0), L("ppp", 0, 0) >>
    [] kd = "rename"   -> << L("simil", 0, 0), L("renfrom", f, 0), L("rento", g, 0) >>
    [] kd = "renmod"   -> << L("simil", 0, 0), L("renfrom", f, 0), L("rento", g, 0), L("index", 0, 0),
                             L("mmm", f, 0), L("ppp", g, 0) >>
    [] kd = "copy"     -> << L("simil", 0, 0), L("copyfrom", f, 0), L("copyto", g, 0) >>
    [] kd = "modeonly" -> << L("oldmode", 0, 0), L("newmode", 0, 0) >>
    [] kd = "modemod"  -> << L("oldmode", 0, 0), L("newmode", 0, 0), L("index", 0, 0), L("mmm", f, 0),
                             L("ppp", f, 0) >>
    [] kd = "modebin"  -> << L("oldmode", 0, 0), L("newmode", 0, 0), L("index", 0, 0), L("binary", f, f) >>
    [] kd = "renmode"  -> << L("oldmode", 0, 0), L("newmode", 0, 0), L("simil", 0, 0), L("renfrom", f, 0), L("rento", g, 0) >>
    [] kd = "bin"      -> << L("index", 0, 0), L("binary", f, f) >>
    [] kd = "binadd"   -> << L("newfile", 0, 0), L("index", 0, 0), L("binary", 0, f) >>
    \* `git diff --no-index old.png new.png`: two different paths on the diff line, and no line that names either alone
    [] kd = "renbin"   -> << L("simil", 0, 0), L("renfrom", f, 0), L("rento", g, 0), L("index", 0, 0), L("binary", f, g) >>
    [] kd = "binx"     -> << L("index", 0, 0), L("binary", f, g) >>
    [] kd = "cc"       -> << L("index", 0, 0), L("mmm", f, 0), L("ppp", f, 0) >>   \* diff --cc / --combined (merge)
    [] kd = "bare"     -> << >>
    \* submodules: diff.submodule=log prints "Submodule <path> <a>..<b>:" and its "  > subject" lines instead of
    \* a diff; the default (short) format is an ordinary diff whose hunk consists of two "Subproject commit" lines
    [] kd = "sublog"   -> << >>
    [] kd = "subdel"   -> << L("delfile", 0, 0), L("index", 0, 0), L("mmm", f, 0), L("ppp", 0, 0), L("hh", 0, 0), L("subm", 0, 0) >>
    [] kd = "subadd"   -> << L("newfile", 0, 0), L("index", 0, 0), L("mmm", 0, 0), L("ppp", f, 0), L("hh", 0, 0), L("subp", 0, 0) >>
    [] kd = "subshort" -> << L("index", 0, 0), L("mmm", f, 0), L("ppp", f, 0), L("hh", 0, 0), L("subm", 0, 0), L("subp", 0, 0) >>

\* (a removed / an added submodule in the short format: one "Subproject commit" line alone)
SubOne(kd) == kd \in {"subdel", "subadd"}
HasHunks(kd)  == kd \in {"mod", "add", "del", "renmod", "modemod", "cc"}
TwoPaths(kd)  == kd \in {"rename", "renmod", "copy", "renmode", "binx", "renbin"}
AllKinds == {"mod", "add", "addempty", "del", "rename", "renmod", "copy", "modeonly", "modemod", "bin",
             "binadd", "bare", "cc", "sublog", "subshort", "modebin", "renmode", "binx", "renbin", "subdel", "subadd"}

BodyClasses == {"minus", "plus", "zero"}

(* Generator state:                                                                       *)
(*   todo  remaining header lines of the section being emitted                            *)
(*   kd    kind of the current section ("" before the first)                              *)
(*   nh    hunks begun in this section, nb body lines in the current hunk                 *)
(*   last  class of the last body line ("" if none in this hunk)                          *)
(*   pre   phase of the preamble: 0 nothing yet / free text, 1 just after "commit"        *)
(*   conf  inside a combined-diff hunk: phase of the conflict region being emitted              *)
(*         ("" none, "ours", "anc", "theirs"); nc lines emitted in the current phase            *)
GInit == [todo |-> <<>>, kd |-> "", nh |-> 0, nb |-> 0, last |-> "", pre |-> 0, closed |-> FALSE, conf |-> "", nc |-> 0]

\* The section in progress is complete: a new section or commit may begin.
Complete(s) == /\ s.todo = <<>> /\ s.conf = ""
               /\ (HasHunks(s.kd) => s.nh >= 1 /\ s.nb >= 1)

Emit(line, s2) == /\ Len(hist) < MaxLen
                  /\ hist' = Append(hist, line)
                  /\ gs' = s2

StartSection ==
  /\ Complete(gs) /\ ~gs.closed
  /\ \E kd \in Kinds \ {"stat"}, f \in Files, g \in Files :
       /\ (TwoPaths(kd) => f # g) /\ (~TwoPaths(kd) => f = g)
       /\ Emit([c |-> IF kd = "sublog" THEN "sublog" ELSE "diff", f |-> f, g |-> g, kd |-> kd],
               [gs EXCEPT !.todo = Template(kd, f, g), !.kd = kd, !.nh = 0, !.nb = 0, !.last = "", !.pre = 0])

HeaderLine ==
  /\ gs.todo # <<>>
  /\ Emit(Head(gs.todo), [gs EXCEPT !.todo = Tail(@)])

HunkHeader ==
  /\ gs.todo = <<>> /\ HasHunks(gs.kd) /\ gs.nh < MaxHunks /\ ~gs.closed
  /\ (gs.nh >= 1 => gs.nb >= 1)
  /\ gs.conf = ""
  /\ Emit(L("hh", 0, 0), [gs EXCEPT !.nh = @ + 1, !.nb = 0, !.last = ""])

Body ==
  /\ gs.todo = <<>> /\ gs.nh >= 1 /\ gs.nb < MaxBody /\ ~gs.closed /\ gs.conf = ""
  /\ \E c \in BodyClasses : Emit(L(c, 0, 0), [gs EXCEPT !.nb = @ + 1, !.last = c])

NoNewline ==   \* "\ No newline at end of file" follows a body line
  /\ gs.todo = <<>> /\ gs.nh >= 1 /\ gs.nb >= 1 /\ gs.last \in BodyClasses /\ ~gs.closed /\ gs.conf = ""
  /\ Emit(L("nonl", 0, 0), [gs EXCEPT !.last = "nonl"])

(* A conflict region inside a hunk of a combined diff:  ++<<<<<<< ours  [++||||||| base]   *)
(* ++======= theirs  ++>>>>>>>  with up to MaxConf lines in each part.                       *)
ConflictStep ==
  /\ gs.kd = "cc" /\ gs.todo = <<>> /\ gs.nh >= 1 /\ ~gs.closed
  /\ \/ gs.conf = "" /\ gs.nb < MaxBody /\ Emit(L("m_ours", 0, 0), [gs EXCEPT !.conf = "ours", !.nc = 0])
     \/ gs.conf \in {"ours", "anc", "theirs"} /\ gs.nc < MaxConf
          /\ Emit(L("cin", 0, 0), [gs EXCEPT !.nc = @ + 1])
     \/ gs.conf = "ours" /\ Emit(L("m_anc", 0, 0), [gs EXCEPT !.conf = "anc", !.nc = 0])
     \/ gs.conf \in {"ours", "anc"} /\ Emit(L("m_theirs", 0, 0), [gs EXCEPT !.conf = "theirs", !.nc = 0])
     \/ gs.conf = "theirs" /\ Emit(L("m_end", 0, 0), [gs EXCEPT !.conf = "", !.nb = @ + 1, !.last = "zero"])

SubLogLine ==    \* the "  > commit subject" lines of a submodule log
  /\ gs.kd = "sublog" /\ gs.nb < MaxBody /\ ~gs.closed
  /\ Emit(L("subc", 0, 0), [gs EXCEPT !.nb = @ + 1])

Blank ==       \* the empty line `git log -p` prints after the last section of a commit
  /\ Preamble /\ Complete(gs) /\ gs.kd # "" /\ ~gs.closed
  /\ Emit(L("blank", 0, 0), [gs EXCEPT !.closed = TRUE])

Commit ==
  /\ Preamble /\ Complete(gs)
  /\ Emit(L("commit", 0, 0), [GInit EXCEPT !.pre = 1])

Text ==        \* free text: commit message, log metadata, anything before/between sections
  /\ Preamble /\ gs.kd = ""
  /\ Emit(L("other", 0, 0), gs)

Stat ==        \* a `git log --stat` line " path | 3 ++-" (enabled by the pseudo-kind "stat" in Kinds)
  /\ Preamble /\ "stat" \in Kinds /\ gs.kd = ""
  /\ \E f \in Files : Emit(L("stat", f, 0), gs)

GNext == Stat \/ StartSection \/ HeaderLine \/ HunkHeader \/ Body \/ NoNewline \/ ConflictStep \/ SubLogLine \/ Blank \/ Commit \/ Text
=============================================================================
