----------------------------- MODULE MC_Options -----------------------------
(* Design level: on the whole small-scope lattice of placements the procedural result is     *)
(* among the values the documented precedence allows, and it does not depend on the order in  *)
(* which the [delta] section's feature flags are met (HashMap iteration in the original code;  *)
(* SortedFlags = TRUE models the repaired, sorted iteration).                                  *)
EXTENDS Options, Json, SequencesExt
CONSTANTS SortedFlags, Emit
VARIABLES p, done
vars == <<p, done>>
Feats == {"A", "B", "dsf"}
FSeqs == {<<>>, <<"A">>, <<"B">>, <<"A", "B">>, <<"B", "A">>, <<"dsf">>, <<"A", "dsf">>}
Placements ==
  [cli : BOOLEAN, gcp : {FALSE}, main : BOOLEAN, custom : SUBSET {"A", "B", "C", "dsf"},
   mainF : FSeqs, cliF : {<<>>, <<"B">>, <<"B", "A">>}, hasCliF : BOOLEAN,
   envF : {<<"B">>}, envMode : {"none"}, childA : {<<>>, <<"C">>, <<"C", "dsf">>},
   flagsCli : {{}, {"dh"}}, flagsMain : SUBSET {"dsf", "dh"}, optB : {TRUE}, noGit : BOOLEAN]
  \cup
  [cli : {FALSE}, gcp : BOOLEAN, main : BOOLEAN, custom : {{"A"}, {"A", "B"}, {"B", "C"}},
   mainF : {<<>>, <<"A">>, <<"A", "B">>}, cliF : {<<>>, <<"A">>}, hasCliF : BOOLEAN,
   envF : {<<"B">>, <<"B", "A">>}, envMode : {"plain", "plus"}, childA : {<<>>, <<"C">>},
   flagsCli : {{}}, flagsMain : {{}, {"dsf"}}, optB : BOOLEAN, noGit : {FALSE}]
  \cup   \* features listed twice; a custom section named like a builtin feature that does not set the option itself
  [cli : {FALSE}, gcp : {FALSE}, main : {FALSE}, custom : SUBSET {"A", "B", "nav"},
   mainF : {<<>>, <<"A", "B", "A">>, <<"B", "A", "B">>, <<"nav", "A">>, <<"A", "nav">>},
   cliF : {<<>>, <<"A", "B", "A">>, <<"B", "A", "B">>, <<"A", "nav", "A">>}, hasCliF : BOOLEAN,
   envF : {<<"A">>, <<"B">>}, envMode : {"none", "plus"}, childA : {<<>>, <<"nav">>, <<"B">>},
   flagsCli : {{}, {"nav"}, {"nav", "dsf"}}, flagsMain : {{}, {"nav"}, {"nav", "dh"}}, optB : {TRUE}, noGit : {FALSE}]
  \cup   \* --no-gitconfig with every gitconfig source set
  [cli : BOOLEAN, gcp : BOOLEAN, main : BOOLEAN, custom : SUBSET {"A", "dsf"},
   mainF : {<<>>, <<"A">>}, cliF : {<<>>, <<"A">>, <<"dsf", "A">>, <<"dsf", "dh", "dsf">>, <<"dh", "dsf", "dh">>}, hasCliF : BOOLEAN,
   envF : {<<"A">>}, envMode : {"none", "plus"}, childA : {<<>>, <<"dsf">>},
   flagsCli : {{}, {"dh"}}, flagsMain : {{}, {"dsf"}}, optB : BOOLEAN, noGit : {TRUE}]
  \cup   \* a built-in feature that contains another one (side-by-side -> line-numbers), with and without a gitconfig object
  [cli : {FALSE}, gcp : {FALSE}, main : {FALSE}, custom : {{}}, mainF : {<<>>, <<"sbs">>},
   cliF : {<<>>, <<"sbs">>, <<"ln">>, <<"A", "sbs">>}, hasCliF : BOOLEAN, envF : {<<"sbs">>}, envMode : {"none", "plain"},
   childA : {<<>>, <<"sbs">>}, flagsCli : {{}, {"sbs"}}, flagsMain : {{}, {"sbs"}}, optB : {TRUE}, noGit : BOOLEAN]
Sane(q) == (q.hasCliF <=> q.cliF # <<>>)
Init == p \in {q \in Placements : Sane(q)} /\ done = FALSE
Next == ~done /\ done' = TRUE /\ UNCHANGED p
Spec == Init /\ [][Next]_vars
Orders == IF SortedFlags THEN {SelectSeq(FlagOrder, LAMBDA f : f \in p.flagsMain)} ELSE SeqsOf(p.flagsMain)
WithinDocumented == \A o \in Orders : ImplValue(p, o) \in Allowed(p)
LnRight == \A o \in Orders : LnOK(p, ImplLn(p, o))
Deterministic == \A o1, o2 \in Orders : ImplValue(p, o1) = ImplValue(p, o2)
Replay == done \/ ~Emit \/ PrintT(<<"REPLAY", ToJson([p |-> [p EXCEPT !.custom = SetToSeq(@), !.flagsCli = SetToSeq(@), !.flagsMain = SetToSeq(@)],
                                                     allowed |-> SetToSeq(Allowed(p))])>>)
=============================================================================
