--------------------------- MODULE MC_PagerProto ---------------------------
(* Checks PagerProto and prints, for every behaviour that ends, the sequence of events an observer  *)
(* sees (pager started, pager has its input, pager done, delta exited): the logs recorded from the  *)
(* real binary must be among them (Trace_Pager).                                                    *)
EXTENDS PagerProto, TLC, Json
Emit == delta # "exited" \/ PrintT(<<"FINALLOG", ToJson([stay |-> Stay, quits |-> Quit <= N, log |-> log])>>)
=============================================================================
