----------------------------- MODULE PagerProto -----------------------------
(* C18 as a state machine: delta writes its output in chunks into the pipe of the pager it       *)
(* started; the pager reads, and may stop reading after some chunks - by exiting at once (the     *)
(* user pressed q) or by closing its input while staying alive for a while.  delta's side is      *)
(* src/main.rs run_app (a write that fails with EPIPE ends the rendering quietly, Ok(0)) and the   *)
(* Drop of OutputType in src/utils/bat/output.rs (close the pipe, wait for the pager): main()      *)
(* calls process::exit only after run_app has returned, i.e. after that Drop.                      *)
EXTENDS Naturals, Sequences, FiniteSets

CONSTANTS N,          \* chunks delta has to write
          Cap,        \* pipe capacity in chunks
          Quit,       \* the pager stops reading after Quit chunks (N + 1: it reads everything)
          Stay,       \* BOOLEAN: having stopped reading it closes its input but stays alive for a while
          WaitsForPager,  \* TRUE: the code as it is; FALSE: the regression (exit as soon as a write fails)
          RetriesEINTR,   \* TRUE: the code as it is (a write call that fails with EINTR - a signal arrived before any byte was taken - is
                          \* made again, std::io::Write::write_all); FALSE: the regression (the failure is taken for an error)
          RetriesShort    \* TRUE: the code as it is (write_all: the rest of a chunk that write(2) took only part of -
                          \* reader behind, a signal arrives - is written again); FALSE: the regression (the rest is dropped)

VARIABLES pipe,       \* chunks in the pipe
          sent,       \* chunks written so far
          wopen,      \* delta's (write) end of the pipe is open
          ropen,      \* the pager's (read) end is open
          read,       \* chunks the pager has read
          pager,      \* "running" | "staying" (input closed, still alive) | "exited"
          delta,      \* "writing" | "waiting" (pipe closed, waiting for the pager) | "exited"
          epipe,      \* delta has seen a write fail
          log,        \* the events an observer can record, in order
          partial,    \* write(2) has taken only a part of chunk sent + 1 (the part sits in the pipe, not yet a whole chunk)
          lost,       \* chunks of which the reader can only ever get a part
          intr,       \* the write call for chunk sent + 1 has been interrupted once already (at most once per chunk here)
          err         \* delta has reported an error to its user
vars == <<pipe, sent, wopen, ropen, read, pager, delta, epipe, log, partial, lost, intr, err>>

Init == pipe = 0 /\ sent = 0 /\ wopen = TRUE /\ ropen = TRUE /\ read = 0 /\ pager = "running" /\ delta = "writing" /\ epipe = FALSE /\ log = <<"start">>
        /\ partial = FALSE /\ lost = 0 /\ intr = FALSE /\ err = FALSE

Write == /\ delta = "writing" /\ sent < N /\ ropen /\ pipe < Cap                  \* a whole chunk, or the rest of one
         /\ sent' = sent + 1 /\ pipe' = pipe + 1 /\ partial' = FALSE /\ UNCHANGED <<wopen, ropen, read, pager, delta, epipe, log, lost>>
(* write(2) returns having taken fewer bytes than it was given (the pipe is nearly full and a signal - ctrl-c typed in *)
(* the pager goes to the whole foreground process group - interrupts the wait for room).  At most once per chunk here.  *)
ShortWrite == /\ delta = "writing" /\ sent < N /\ ropen /\ pipe < Cap /\ ~partial
              /\ partial' = TRUE /\ UNCHANGED <<pipe, sent, wopen, ropen, read, pager, delta, epipe, log, lost>>
DropRest == /\ ~RetriesShort /\ delta = "writing" /\ partial                        \* the regression: on to the next chunk
            /\ partial' = FALSE /\ sent' = sent + 1 /\ lost' = lost + 1
            /\ UNCHANGED <<pipe, wopen, ropen, read, pager, delta, epipe, log>>
WriteFails == /\ delta = "writing" /\ sent < N /\ ~ropen             \* EPIPE: nobody will ever read
              /\ epipe' = TRUE /\ wopen' = FALSE
              /\ delta' = IF WaitsForPager THEN "waiting" ELSE "exited"
              /\ log' = IF WaitsForPager THEN log ELSE Append(log, "delta-exit")
              /\ UNCHANGED <<pipe, sent, ropen, read, pager, partial, lost>>
Finish == /\ delta = "writing" /\ sent = N /\ ~partial
          /\ wopen' = FALSE /\ delta' = "waiting" /\ UNCHANGED <<pipe, sent, ropen, read, pager, epipe, log, partial, lost>>
PagerRead == /\ pager = "running" /\ ropen /\ pipe > 0 /\ read < Quit
             /\ pipe' = pipe - 1 /\ read' = read + 1 /\ UNCHANGED <<sent, wopen, ropen, pager, delta, epipe, log, partial, lost>>
PagerStops == /\ pager = "running" /\ ropen /\ read = Quit          \* the user quits
              /\ ropen' = FALSE /\ pipe' = 0
              /\ pager' = IF Stay THEN "staying" ELSE "exited"
              /\ log' = log \o (IF Stay THEN <<"got">> ELSE <<"got", "done">>)
              /\ UNCHANGED <<sent, wopen, read, delta, epipe, partial, lost>>
PagerEOF == /\ pager = "running" /\ ropen /\ pipe = 0 /\ ~wopen /\ read < Quit     \* end of input
            /\ ropen' = FALSE /\ pager' = "exited" /\ log' = log \o <<"got", "done">>
            /\ UNCHANGED <<pipe, sent, wopen, read, delta, epipe, partial, lost>>
PagerLeaves == /\ pager = "staying" /\ pager' = "exited" /\ log' = Append(log, "done")
               /\ UNCHANGED <<pipe, sent, wopen, ropen, read, delta, epipe, partial, lost>>
DeltaExits == /\ delta = "waiting" /\ pager = "exited"              \* child.wait() returns
              /\ delta' = "exited" /\ log' = Append(log, "delta-exit")
              /\ UNCHANGED <<pipe, sent, wopen, ropen, read, pager, epipe, partial, lost>>
(* write(2) fails with EINTR: nothing was taken.  The code makes the call again (no change of state but the mark that it    *)
(* happened); the regression gives up: closes the pipe, tells the user, waits for the pager.                                *)
WriteInterrupted == /\ delta = "writing" /\ sent < N /\ ropen /\ ~intr
                    /\ intr' = TRUE
                    /\ IF RetriesEINTR THEN UNCHANGED <<wopen, delta, err>>
                       ELSE err' = TRUE /\ wopen' = FALSE /\ delta' = "waiting"
                    /\ UNCHANGED <<pipe, sent, ropen, read, pager, epipe, log, partial, lost>>
Others == Write \/ ShortWrite \/ DropRest \/ WriteFails \/ Finish \/ PagerRead \/ PagerStops \/ PagerEOF \/ PagerLeaves \/ DeltaExits
Next == \/ Others /\ err' = err /\ intr' = (IF sent' # sent THEN FALSE ELSE intr)
        \/ WriteInterrupted
Spec == Init /\ [][Next]_vars /\ WF_vars(Next)

\* ---- the properties ----
NoEarlyExit == delta = "exited" => pager = "exited"                  \* delta does not exit before the pager does
AllDelivered == (delta = "exited" /\ Quit > N) => (read = N /\ lost = 0)  \* a pager that reads everything gets everything, whole
NothingInvented == read <= sent /\ sent <= N /\ read + lost <= sent
Quiet == ~err                                                         \* an interrupted write call is not an error
LogOrder == \A i, j \in DOMAIN log : (log[i] = "delta-exit" /\ log[j] = "done") => j < i
Terminates == <>(delta = "exited")
=============================================================================
