----------------------------- MODULE Cover_DiffU -----------------------------
(* Transition cover of the stream model on diff -u input (see Cover_Stream). *)
EXTENDS Naturals, Sequences, FiniteSets, TLC, Json
CONSTANTS NF, MaxLen, MaxHunks, MaxOld, MaxNew, Titled, Ambig, Buf, Fixes, ColorOnly, Modes
VARIABLES hist, gs, s
E == INSTANCE Env_DiffU
I == INSTANCE Impl_Stream
vars == <<hist, gs, s>>
Abs(x) == [st |-> x.st, mf |-> x.mf, pf |-> x.pf, cur |-> x.cur, handled |-> x.handled, mb |-> Len(x.mb), pb |-> Len(x.pb),
           ob |-> [i \in DOMAIN x.ob |-> x.ob[i].t], hh |-> x.hh # 0, src |-> x.src, m3 |-> x.m3]
View == <<gs, Abs(s)>>
Init == hist = <<>> /\ gs = E!GInit /\ s = I!InitS
Next == E!GNext /\ s' = [I!Step(s, Len(hist'), hist'[Len(hist')]) EXCEPT !.w = <<>>, !.sy = <<>>]
Spec == Init /\ [][Next]_vars
Edge == PrintT(<<"EDGE", ToJson([from |-> View, to |-> View', line |-> hist'[Len(hist')]])>>)
=============================================================================
