SPECIFICATION GSpec
CONSTANTS
  GitColoured = TRUE
  BlameFixed = TRUE
  NK = 3
  MaxLen = 6
  Palettes = {2, 3}
  ReplayLen = 4
INVARIANTS GTotal GLaws GSame GReplay
CHECK_DEADLOCK FALSE
