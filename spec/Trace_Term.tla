----------------------------- MODULE Trace_Term -----------------------------
(* Trace validation of recorded output rows against Term (C09, and the OSC 8 part of C19). *)
(* Events:  [ev |-> "Row", run, row, toks, maxw]   maxw = 0: no width bound asked           *)
(* The monitor consumes every event; a row that breaks a law is recorded in `failed`.      *)
EXTENDS Term, Json, IOUtils, TLC

Rec == ndJsonDeserialize(IOEnv.TRACE)

VARIABLES l, failed
vars == <<l, failed>>

Why(e) ==
  IF ~NoBad(e.toks) THEN "cut-escape"
  ELSE IF ~LinkBalanced(e.toks) THEN "link-unbalanced"
  ELSE IF ~RowClosed(e.toks) THEN "rendition-leaks"
  ELSE IF e.maxw > 0 /\ RowWidth(e.toks) > e.maxw THEN "too-wide"
  ELSE ""

Init == l = 1 /\ failed = <<>>
Next == /\ l <= Len(Rec)
        /\ l' = l + 1
        /\ LET e == Rec[l] w == Why(e) IN
             failed' = IF w = "" THEN failed ELSE Append(failed, [run |-> e.run, row |-> e.row, why |-> w])
Spec == Init /\ [][Next]_vars

Done == l <= Len(Rec) \/ PrintT(<<"VERDICT", ToJson(failed)>>)
=============================================================================
