------------------------------- MODULE MC_Edits -------------------------------
(* Design level for C06: on every subhunk of the small scope the transcription of delta's       *)
(* pairing and emphasis (Edits) obeys the laws of Obs_Emph.  Also the source of the per-character  *)
(* predictions that the binary's renderings are compared with (drift in Trace_Emph).               *)
EXTENDS Edits, Obs_Emph, TLC
CONSTANTS Alphabet, MaxLen, Thrs, Res, MaxLines
VARIABLES ms, ps, thr, re
vars == <<ms, ps, thr, re>>

Strings == UNION {[1..n -> Alphabet] : n \in 0..MaxLen}
Lines(n) == [1..n -> Strings]
\* (one initial state; the subhunks are its successors, so that TLC's workers share the evaluation of the laws)
Init == ms = <<>> /\ ps = <<>> /\ thr = 0 /\ re = ""
Next == \/ /\ ms = <<>> /\ \E a \in 1..MaxLines : ms' \in Lines(a)
           /\ UNCHANGED <<ps, thr, re>>
        \/ /\ ms # <<>> /\ ps = <<>> /\ \E b \in 1..MaxLines : ps' \in Lines(b)
           /\ thr' \in Thrs /\ re' \in Res /\ UNCHANGED ms
Spec == Init /\ [][Next]_vars

R == InferEdits(re, thr, 0, ms, ps)
Line(t, r) == [t |-> t, e |-> r.e, p |-> r.p]
ML == [i \in DOMAIN ms |-> Line(ms[i], R.ms[i])]
PL == [j \in DOMAIN ps |-> Line(ps[j], R.ps[j])]
PairedOf(ls) == SelectSeq(ls, LAMBDA x : x.p)

Shape == Len(R.ms) = Len(ms) /\ Len(R.ps) = Len(ps) /\ \A i \in DOMAIN ms : Len(R.ms[i].e) = Len(ms[i])
SameNumberPaired == Len(PairedOf(ML)) = Len(PairedOf(PL))
UnpairedPlain == (\A i \in DOMAIN ML : ~ML[i].p => NoEmph(ML[i])) /\ (\A j \in DOMAIN PL : ~PL[j].p => NoEmph(PL[j]))
SoundPairs == SameNumberPaired => \A k \in DOMAIN PairedOf(ML) : Sound(PairedOf(ML)[k], PairedOf(PL)[k])
IdenticalPlain == SameNumberPaired => \A k \in DOMAIN PairedOf(ML) :
                     Identical(PairedOf(ML)[k], PairedOf(PL)[k]) => NoEmph(PairedOf(ML)[k]) /\ NoEmph(PairedOf(PL)[k])
OneRun == (Len(ms) = 1 /\ Len(ps) = 1) => (SingleRun(re, ML[1], PL[1]) /\ JoinedRun(re, ML[1], PL[1]))
Min2(a, b) == IF a < b THEN a ELSE b
AtOnePositional == thr = 100 => /\ \A i \in DOMAIN ML : ML[i].p = (i <= Min2(Len(ms), Len(ps)))
                                /\ \A j \in DOMAIN PL : PL[j].p = (j <= Min2(Len(ms), Len(ps)))
AtZeroWhitespaceOnly == (thr = 0 /\ SameNumberPaired) => \A k \in DOMAIN PairedOf(ML) : NoSpace(PairedOf(ML)[k].t) = NoSpace(PairedOf(PL)[k].t)
Laws == ps = <<>> \/ (Shape /\ SameNumberPaired /\ UnpairedPlain /\ SoundPairs /\ IdenticalPlain /\ OneRun /\ AtOnePositional /\ AtZeroWhitespaceOnly)
=============================================================================
