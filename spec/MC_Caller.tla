------------------------------ MODULE MC_Caller ------------------------------
EXTENDS Caller, TLC, Json
CONSTANTS NQ
VARIABLES s, hist
vars == <<s, hist>>
Init == s = InitC /\ hist = <<>>
Do(a) == Guard(s, a) /\ (a = "q_enter" => s.nq < NQ) /\ s' = Update(s, a) /\ hist' = Append(hist, a)
Next == \E a \in Labels : Do(a)
Spec == Init /\ [][Next]_vars /\ \A a \in Labels : WF_vars(Do(a))
Safe == NeverPending(s) /\ KnownWins(s)
\* no query blocks forever; the background thread finishes
QueriesReturn == (s.pcm = "q1") ~> (s.pcm = "idle")
BgFinishes == <>(s.pcb = "bdone")
\* every maximal interleaving (nothing more can happen) is a schedule to force on the real binary
Maximal == s.pcb = "bdone" /\ s.pcm = "idle" /\ s.nq = NQ /\ s.set
MaximalNoSet == s.pcb = "bdone" /\ s.pcm = "idle" /\ s.nq = NQ /\ ~s.set /\ ~(\E i \in DOMAIN hist : hist[i] = "m_enter")
Schedules == ~(Maximal \/ MaximalNoSet) \/ PrintT(<<"SCHEDULE", ToJson(hist)>>)
=============================================================================
