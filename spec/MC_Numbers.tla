----------------------------- MODULE MC_Numbers -----------------------------
(* Design level for C05: on every sequence of blocks a hunk can consist of - unchanged lines,    *)
(* removed/added pairs and unpaired lines, each wrapped over 1..MaxWrap rows - the counters as     *)
(* the code moves them show the true numbers.  The regression configs drop one arm of the          *)
(* compensation and must be rejected.                                                              *)
EXTENDS Numbers, TLC, Json
CONSTANTS MaxWrap, MaxRows, Emit
VARIABLES rows, done
vars == <<rows, done>>

PanelRow(j, n) == IF j > n THEN "none" ELSE IF j = 1 THEN "first" ELSE "cont"
Max(a, b) == IF a > b THEN a ELSE b
\* a removed line over m rows beside an added line over p rows (0 = no partner)
PairRows(m, p) == [j \in 1..Max(m, p) |-> [v |-> "pm", l |-> PanelRow(j, m), r |-> PanelRow(j, p)]]
ZeroRows(n) == [j \in 1..n |-> [v |-> "z", l |-> PanelRow(j, n), r |-> PanelRow(j, n)]]
UniRows(k) == << [v |-> "u", l |-> "first", r |-> k] >>

Init == rows = <<>> /\ done = FALSE
Next == /\ ~done
        /\ \/ \E m, p \in 0..MaxWrap : m + p > 0 /\ Len(rows) + Max(m, p) <= MaxRows /\ rows' = rows \o PairRows(m, p) /\ UNCHANGED done
           \/ \E n \in 1..MaxWrap : Len(rows) + n <= MaxRows /\ rows' = rows \o ZeroRows(n) /\ UNCHANGED done
           \/ done' = TRUE /\ UNCHANGED rows
Spec == Init /\ [][Next]_vars

TrueNumbers == \A L0 \in {1, 7}, R0 \in {1, 9} : AllTrue(rows, L0, R0, Run(rows, 1, L0, R0), <<TRUE, TRUE, TRUE, TRUE>>)
\* unified view: the same counters, one call per row
UnifiedTrue == \A a, b, c \in {"minus", "plus", "zero"} :
                 LET u == UniRows(a) \o UniRows(b) \o UniRows(c) IN AllTrue(u, 3, 5, Run(u, 1, 3, 5), <<TRUE, TRUE, TRUE, TRUE>>)
Replay == ~done \/ ~Emit \/ Len(rows) = 0 \/ PrintT(<<"REPLAY", ToJson([rows |-> rows])>>)
=============================================================================
