SPECIFICATION Spec
CONSTANTS
  NF = 2
  MaxLen = 8
  Kinds = {"mod", "add", "addempty", "del", "rename", "renmod", "copy", "modeonly", "modemod", "bin", "binadd", "modebin", "renmode", "sublog", "subshort", "binx", "renbin", "subdel", "subadd"}
  MaxHunks = 2
  MaxBody = 3
  Preamble = TRUE
  MaxConf = 1
  Buf = 1
  Fixes = {"D1", "D14", "D2", "D18", "D19", "D20", "D21", "D23", "D24", "D25"}
  ColorOnly = TRUE
  Modes = {}
  ReplayLen = 0
INVARIANTS LineForLine
CHECK_DEADLOCK FALSE
