SPECIFICATION Spec
CONSTANTS
  Alphabet = {97, 98, 32}
  MaxLen = 2
  Thrs = {0, 60, 100}
  Res = {"w"}
  MaxLines = 2
INVARIANTS Laws
CHECK_DEADLOCK FALSE
