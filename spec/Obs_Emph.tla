------------------------------ MODULE Obs_Emph ------------------------------
(* C06: within-line emphasis marks exactly what changed between paired lines.            *)
(* A rendered line is [t, e, p]: t characters (code points), e per-character mark        *)
(* (0 plain, 1 emphasised, 2 whitespace-error style: neutral), p TRUE iff the line is    *)
(* shown as one of a homologous pair (non-emph / emph styles, not the plain line style). *)
EXTENDS Naturals, Sequences, FiniteSets

SP == 32
RECURSIVE Keep(_, _, _, _)
\* characters of t whose mark is not in `drop`
Keep(t, e, drop, i) == IF i > Len(t) THEN <<>>
                       ELSE (IF e[i] \in drop THEN <<>> ELSE <<t[i]>>) \o Keep(t, e, drop, i + 1)

IsWs(c) == c \in {32, 9, 160, 12288}      \* space, tab, no-break space, ideographic space
RECURSIVE StripL(_)
StripL(s) == IF s # <<>> /\ IsWs(Head(s)) THEN StripL(Tail(s)) ELSE s
RECURSIVE StripR(_)
StripR(s) == IF s # <<>> /\ IsWs(s[Len(s)]) THEN StripR(SubSeq(s, 1, Len(s) - 1)) ELSE s
Strip(s) == StripR(StripL(s))
NoSpace(s) == SelectSeq(s, LAMBDA c : ~IsWs(c))

\* ---- tokenisation (edits.rs::tokenize): regex matches are tokens, the rest single characters ----
IsWord(c) == c \in (48..57) \cup (65..90) \cup (97..122) \cup {95} \/ (c >= 170 /\ ~IsWs(c))   \* the other non-ASCII characters used are letters
InTok(re, c) == CASE re = "w" -> IsWord(c) [] re = "S" -> c # SP /\ c # 9 [] OTHER -> FALSE
RECURSIVE Tok(_, _, _, _)
\* cur = the regex match being accumulated
Tok(re, s, i, cur) ==
  IF i > Len(s) THEN (IF cur = <<>> THEN <<>> ELSE <<cur>>)
  ELSE IF re # "dot" /\ InTok(re, s[i]) THEN Tok(re, s, i + 1, Append(cur, s[i]))
  ELSE (IF cur = <<>> THEN <<>> ELSE <<cur>>) \o << <<s[i]>> >> \o Tok(re, s, i + 1, <<>>)
Tokens(re, s) == Tok(re, s, 1, <<>>)

RECURSIVE Flat(_)
Flat(ts) == IF ts = <<>> THEN <<>> ELSE Head(ts) \o Flat(Tail(ts))

RECURSIVE CommonPrefix(_, _, _)
CommonPrefix(a, b, n) == IF n < Len(a) /\ n < Len(b) /\ a[n + 1] = b[n + 1] THEN CommonPrefix(a, b, n + 1) ELSE n
RECURSIVE CommonSuffix(_, _, _, _)
CommonSuffix(a, b, lim, n) == IF n < lim /\ a[Len(a) - n] = b[Len(b) - n] THEN CommonSuffix(a, b, lim, n + 1) ELSE n

\* the single-run decomposition  a = P \o X \o S,  b = P \o Y \o S  (longest P, then longest S)
Middle(a, b) ==
  LET np == CommonPrefix(a, b, 0)
      lim == (IF Len(a) < Len(b) THEN Len(a) ELSE Len(b)) - np
      ns == CommonSuffix(a, b, lim, 0)
  IN << SubSeq(a, np + 1, Len(a) - ns), SubSeq(b, np + 1, Len(b) - ns) >>

Range(s) == {s[i] : i \in DOMAIN s}

\* ---- the laws ----
\* deleting the emphasised parts of both lines of a pair leaves the same text (whitespace-error
\* characters may count either way)
\* a = b with some of b's neutral characters (mark 2) deleted
RECURSIVE UpToNeutral(_, _, _, _, _)
UpToNeutral(a, i, bt, be, j) ==
  IF j > Len(bt) THEN i > Len(a)
  ELSE IF be[j] = 1 THEN UpToNeutral(a, i, bt, be, j + 1)
  ELSE \/ (i <= Len(a) /\ a[i] = bt[j] /\ UpToNeutral(a, i + 1, bt, be, j + 1))
       \/ (be[j] = 2 /\ UpToNeutral(a, i, bt, be, j + 1))
Sound(m, p) == UpToNeutral(Keep(m.t, m.e, {1}, 1), 1, p.t, p.e, 1)

NoEmph(x) == \A i \in DOMAIN x.e : x.e[i] # 1

\* at most one emphasised stretch (neutral characters may lie inside it)
OneStretch(x) == \A i, k \in DOMAIN x.e : (i < k /\ x.e[i] = 1 /\ x.e[k] = 1) => \A j \in i..k : x.e[j] \in {1, 2}
EmphText(x) == Keep(x.t, x.e, {0, 2}, 1)

SingleRun(re, m, p) ==
  LET mid == Middle(Tokens(re, m.t), Tokens(re, p.t)) X == mid[1] Y == mid[2] IN
  ((X # <<>> \/ Y # <<>>) /\ Range(X) \cap Range(Y) = {} /\ m.p /\ p.p) =>
     /\ OneStretch(m) /\ OneStretch(p)
     /\ Strip(EmphText(m)) = Strip(Flat(X))
     /\ Strip(EmphText(p)) = Strip(Flat(Y))

\* "(give or take adjacent whitespace)": two changed stretches with nothing but the same blanks between them are one
\* run - X = A \o W \o B, Y = C \o W \o D with W blank tokens only, A, B, C, D non-empty, without blanks, and A, B
\* sharing no token with C, D.  (edits.rs::annotate gives an unchanged blank section between a deletion + insertion and
\* further changes the emphasis of its neighbours.)
IsBlankTok(tok) == \A k \in DOMAIN tok : IsWs(tok[k])
BlankIdx(X) == {i \in DOMAIN X : IsBlankTok(X[i])}
Interior(X) == LET w == BlankIdx(X) IN
  /\ w # {} /\ 1 \notin w /\ Len(X) \notin w
  /\ \A i, k \in w : \A j \in i..k : j \in w
BlankRun(X) == LET w == BlankIdx(X) IN SelectSeq([i \in DOMAIN X |-> IF i \in w THEN X[i] ELSE <<>>], LAMBDA z : z # <<>>)
NonBlank(X) == {X[i] : i \in DOMAIN X \ BlankIdx(X)}
JoinedRun(re, m, p) ==
  LET mid == Middle(Tokens(re, m.t), Tokens(re, p.t)) X == mid[1] Y == mid[2] IN
  (m.p /\ p.p /\ Interior(X) /\ Interior(Y) /\ BlankRun(X) = BlankRun(Y) /\ NonBlank(X) \cap NonBlank(Y) = {}) =>
     /\ OneStretch(m) /\ OneStretch(p)
     /\ Strip(EmphText(m)) = Strip(Flat(X))
     /\ Strip(EmphText(p)) = Strip(Flat(Y))

Identical(m, p) == m.t = p.t
=============================================================================
