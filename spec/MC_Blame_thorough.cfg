SPECIFICATION Spec
CONSTANTS
  GitColoured = FALSE
  BlameFixed = TRUE
  NK = 4
  MaxLen = 9
  Palettes = {2, 3, 4}
  ReplayLen = 7
INVARIANTS LawsHold InPalette Replay
CHECK_DEADLOCK FALSE
