SPECIFICATION Spec
CONSTANTS
  N = 3
  Cap = 2
  Quit = 1
  Stay = TRUE
  WaitsForPager = FALSE
  RetriesShort = TRUE
  RetriesEINTR = TRUE
INVARIANTS NoEarlyExit
CHECK_DEADLOCK FALSE
