SPECIFICATION Spec
CONSTANTS
  BgChecksSource = TRUE
  SetFirst = FALSE
INVARIANT Done
CHECK_DEADLOCK FALSE
