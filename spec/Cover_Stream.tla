---------------------------- MODULE Cover_Stream ----------------------------
(* Transition cover of the stream model.  The state graph of Env_Git x Impl_Stream with  *)
(* line indices erased is small; TLC enumerates it (VIEW) and prints every edge.  The    *)
(* harness turns the graph into a set of histories in which every pair of consecutive     *)
(* abstract transitions occurs ("one implementation test per model transition pair").     *)
EXTENDS Naturals, Sequences, FiniteSets, TLC, Json

CONSTANTS NF, MaxLen, Kinds, MaxHunks, MaxBody, Preamble, MaxConf, Buf, Fixes, ColorOnly, Modes

VARIABLES hist, gs, s

E == INSTANCE Env_Git
I == INSTANCE Impl_Stream

vars == <<hist, gs, s>>

Abs(x) == [st |-> x.st, mf |-> x.mf, pf |-> x.pf, mev |-> x.mev, pev |-> x.pev, dlf |-> x.dlf, mode |-> x.mode,
           cur |-> x.cur, handled |-> x.handled, mb |-> Len(x.mb), pb |-> Len(x.pb),
           ob |-> [i \in DOMAIN x.ob |-> x.ob[i].t], hh |-> x.hh # 0, bin |-> x.bin,
           comb |-> x.comb, mcp |-> x.mcp, mo |-> Len(x.mo), ma |-> Len(x.ma), mt |-> Len(x.mt),
           syn |-> x.syn, hl |-> x.hl, subk |-> x.subk # 0]
View == <<gs, Abs(s)>>

Init == hist = <<>> /\ gs = E!GInit /\ s = I!InitS
Next == /\ E!GNext
        /\ s' = [I!Step(s, Len(hist'), hist'[Len(hist')]) EXCEPT !.w = <<>>, !.sy = <<>>]
Spec == Init /\ [][Next]_vars

Edge == PrintT(<<"EDGE", ToJson([from |-> View, to |-> View', line |-> hist'[Len(hist')]])>>)
=============================================================================
