SPECIFICATION Spec
CONSTANTS
  NF = 1
  MaxLen = 14
  Kinds = {"cc", "modeonly"}
  MaxHunks = 2
  MaxBody = 2
  Preamble = FALSE
  MaxConf = 1
  Buf = 1
  Fixes = {"D1", "D14", "D2", "D18", "D19", "D20", "D21", "D23", "D24", "D25"}
  ColorOnly = TRUE
  Modes = {}
  ReplayLen = 0
INVARIANTS LineForLine
CHECK_DEADLOCK FALSE
