------------------------------ MODULE ShowFile ------------------------------
(* `git show <rev>:<path>` piped through delta: the file is shown, every line syntax-highlighted in the     *)
(* language of <path>'s name (handlers/git_show_file.rs).  The handler is the 14th of the chain, so a line *)
(* that an earlier handler claims is not the file's any more - and that handler changes the state, after    *)
(* which the show-file handler never gets a line again.                                                     *)
(*                                                                                                          *)
(* A line is one of three classes:                                                                          *)
(*   "code"    ordinary text (also: empty)                                                                  *)
(*   "inner"   text that means something only inside a diff, blame or grep construct and opens none:        *)
(*             "index 1..2", "new file mode", "rename from", "+++ b/x", "-x", "+x", " x", "\ No newline",   *)
(*             conflict markers, "Subproject commit", a blame-like or grep-like or diffstat-like line,       *)
(*             "Author:", a commit / diff line behind a graph prefix                                         *)
(*   "marker"  text that opens a construct wherever it stands: "commit <hash>", "diff ", "@@ ", "--- ",      *)
(*             "old mode", "new mode", "Binary files", "Only in", "Submodule "                               *)
(* caller: "showfile" (git show rev:path), "show" (git show rev: no file name), "none"                        *)
EXTENDS Naturals, Sequences, FiniteSets

Classes == {"code", "inner", "marker"}
Callers == {"showfile", "show", "none"}

\* ---- Impl: the state machine (State::Unknown / State::GitShowFile / any state of a construct) ----
\* row kinds: "painted" (zero style, highlighted in the file's language), "raw" (written as it came), "any" (whatever
\* the construct's handler writes: nothing, a header, a box)
StepS(st, caller, c) ==
  IF c = "marker" THEN [st |-> "Construct", row |-> "any"]          \* an earlier handler claims it and moves on
  ELSE IF st = "Unknown" /\ caller = "showfile" THEN [st |-> "GitShowFile", row |-> "painted"]
  ELSE IF st = "GitShowFile" THEN [st |-> "GitShowFile", row |-> "painted"]
  ELSE IF st = "Construct" THEN [st |-> st, row |-> "any"]          \* (the construct's states decide: skipped in a header block, raw elsewhere)
  ELSE [st |-> st, row |-> "raw"]

RECURSIVE RunS(_, _, _, _)
RunS(lines, caller, st, i) ==
  IF i > Len(lines) THEN <<>>
  ELSE LET r == StepS(st, caller, lines[i]) IN <<r.row>> \o RunS(lines, caller, r.st, i + 1)
Rows(lines, caller) == RunS(lines, caller, "Unknown", 1)

\* ---- Obs ----
MarkerFree(lines) == \A i \in DOMAIN lines : lines[i] # "marker"
\* the file is shown: one highlighted row per line (a file without construct-opening lines)
FileShown(lines, caller, rows) ==
  (caller = "showfile" /\ MarkerFree(lines)) => rows = [i \in DOMAIN lines |-> "painted"]
\* without a file name there is nothing to highlight: free text passes through (C04)
PassThrough(lines, caller, rows) ==
  (caller # "showfile" /\ MarkerFree(lines)) => rows = [i \in DOMAIN lines |-> "raw"]
\* up to the first marker the file is shown whatever follows (what has been written is not revised)
RECURSIVE FirstMarker(_, _)
FirstMarker(lines, i) == IF i > Len(lines) \/ lines[i] = "marker" THEN i ELSE FirstMarker(lines, i + 1)
PrefixShown(lines, caller, rows) ==
  caller = "showfile" => \A i \in 1..(FirstMarker(lines, 1) - 1) : rows[i] = "painted"
=============================================================================
