------------------------- MODULE Trace_BoolOverride -------------------------
(* C13, boolean options: `git -c delta.<flag>=<value>` (GIT_CONFIG_PARAMETERS) belongs to the main section and outranks    *)
(* the configuration file, whichever of git's spellings of a boolean it uses.  One event per resolution by the real binary:  *)
(*   [run, gcp, file, feat, shown]   gcp / file / feat \in {"none", "true", "false"}: what the override, the [delta]        *)
(*   section of the file and an enabled custom feature say (spelling abstracted by the harness); shown: what                 *)
(*   (a key that the override variable holds twice - git appends - counts with its last occurrence: gcp is that one)         *)
(*   --show-config reports                                                                                                  *)
EXTENDS Naturals, Sequences, TLC, Json, IOUtils
Rec == ndJsonDeserialize(IOEnv.TRACE)
VARIABLES l, failed
vars == <<l, failed>>
\* precedence: override, then the file's main section, then the feature, then the default (off)
Want(e) == IF e.gcp # "none" THEN e.gcp = "true"
           ELSE IF e.file # "none" THEN e.file = "true"
           ELSE IF e.feat # "none" THEN e.feat = "true"
           ELSE FALSE
Init == l = 1 /\ failed = <<>>
Next == /\ l <= Len(Rec)
        /\ l' = l + 1
        /\ failed' = IF Rec[l].shown = Want(Rec[l]) THEN failed ELSE Append(failed, [run |-> Rec[l].run])
Spec == Init /\ [][Next]_vars
Done == l <= Len(Rec) \/ PrintT(<<"VERDICT", ToJson(failed)>>)
=============================================================================
