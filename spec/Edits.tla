------------------------------- MODULE Edits -------------------------------
(* C06, implementation-shaped: how delta decides which removed line goes with which added line  *)
(* and which parts of a pair are emphasised.  Transcribed from src/edits.rs (tokenize, annotate,  *)
(* infer_edits) and src/align.rs (the Needleman-Wunsch table with delta's costs, the backtrack,   *)
(* the run-length encoding).  Lines are sequences of code points, tokens are such sequences too.   *)
(* The result for a subhunk is, per line, whether it is shown as one of a pair and, per           *)
(* character, whether it is emphasised.                                                            *)
EXTENDS Naturals, Sequences, FiniteSets

IsWsE(c) == c \in {32, 9, 10, 11, 12, 13, 133, 160, 5760, 8232, 8233, 8239, 8287, 12288} \/ (c >= 8192 /\ c <= 8202)   \* char::is_whitespace
\* \w of the regex crate for the characters used: ASCII letters, digits, underscore, and the non-ASCII letters
IsWordE(c) == c \in (48..57) \cup (65..90) \cup (97..122) \cup {95} \/ (c >= 170 /\ ~IsWsE(c) /\ c # 8203)     \* (U+200B is a format character, not \w)
InTokE(re, c) == CASE re = "w" -> IsWordE(c) [] re = "S" -> ~IsWsE(c) [] OTHER -> FALSE     \* "dot": the regex `.` never groups

\* ---- tokenize: regex matches are tokens, what lies between them is cut into single characters; the first token is
\* always the empty one, and a second empty one follows if the line does not begin with a match ----
RECURSIVE TokE(_, _, _, _)
TokE(re, s, i, cur) ==
  IF i > Len(s) THEN (IF cur = <<>> THEN <<>> ELSE <<cur>>)
  ELSE IF re # "dot" /\ InTokE(re, s[i]) THEN TokE(re, s, i + 1, Append(cur, s[i]))
  ELSE (IF cur = <<>> THEN <<>> ELSE <<cur>>) \o << <<s[i]>> >> \o TokE(re, s, i + 1, <<>>)
Tokenize(re, s) ==
  LET startsWithMatch == s # <<>> /\ (IF re = "dot" THEN TRUE ELSE InTokE(re, s[1])) IN
  << <<>> >> \o (IF s # <<>> /\ ~startsWithMatch THEN << <<>> >> ELSE <<>>) \o TokE(re, s, 1, <<>>)

\* ---- align.rs: the table.  Cell = [c cost, o operation "N" | "D" | "I"]; INF stands for usize::MAX ----
INF == 1000000
Pen(cell) == IF cell.o = "N" THEN 1 ELSE 0              \* INITIAL_MISMATCH_PENALTY when a group of changes begins
\* the candidates in the order of the code (first minimum wins): insertion (from above), deletion (from the left), match
Best(up, left, diag, same) ==
  LET ci == up.c + 2 + Pen(up)  cd == left.c + 2 + Pen(left)  cn == IF same THEN diag.c ELSE INF IN
  IF ci <= cd /\ ci <= cn THEN [c |-> ci, o |-> "I"]
  ELSE IF cd <= cn THEN [c |-> cd, o |-> "D"]
  ELSE [c |-> cn, o |-> "N"]
\* row j of the table (columns 0..Len(x)), built from row j-1
RECURSIVE FillRow(_, _, _, _, _)
FillRow(x, yj, prev, j, acc) ==
  LET i == Len(acc) IN      \* next column to fill
  IF i > Len(x) THEN acc
  ELSE FillRow(x, yj, prev, j, Append(acc, Best(prev[i + 1], acc[i], prev[i], x[i] = yj)))
Row0(x) == [i \in 1..(Len(x) + 1) |-> IF i = 1 THEN [c |-> 0, o |-> "N"] ELSE [c |-> 2 * (i - 1) + 1, o |-> "D"]]
RECURSIVE Rows(_, _, _)
Rows(x, y, acc) ==
  LET j == Len(acc) IN      \* next row (acc holds rows 0..j-1)
  IF j > Len(y) THEN acc
  ELSE Rows(x, y, Append(acc, FillRow(x, y[j], acc[j], j, << [c |-> 2 * j + 1, o |-> "I"] >>)))
Table(x, y) == Rows(x, y, << Row0(x) >>)           \* Table[j + 1][i + 1] = cell for (x[1..i], y[1..j])

\* operations(): walk back from the last cell; a cell whose parent is the origin ends the walk (cells of row 0 and
\* column 0 have the origin as their parent, whatever their distance from it)
RECURSIVE Back(_, _, _, _)
Back(t, i, j, acc) ==
  LET cell == t[j + 1][i + 1]
      acc2 == <<cell.o>> \o acc
      pi == IF i = 0 \/ j = 0 THEN 0 ELSE IF cell.o = "I" THEN i ELSE i - 1
      pj == IF i = 0 \/ j = 0 THEN 0 ELSE IF cell.o = "D" THEN j ELSE j - 1
  IN IF pi = 0 /\ pj = 0 THEN acc2 ELSE Back(t, pi, pj, acc2)
Operations(x, y) == Back(Table(x, y), Len(x), Len(y), <<>>)
RECURSIVE RLE(_, _)
RLE(ops, acc) == IF ops = <<>> THEN acc
                 ELSE IF acc # <<>> /\ acc[Len(acc)][1] = Head(ops) THEN RLE(Tail(ops), [acc EXCEPT ![Len(acc)] = <<@[1], @[2] + 1>>])
                 ELSE RLE(Tail(ops), Append(acc, <<Head(ops), 1>>))
Coalesced(x, y) == RLE(Operations(x, y), <<>>)

\* ---- annotate ----
RECURSIVE FlatE(_)
FlatE(ts) == IF ts = <<>> THEN <<>> ELSE Head(ts) \o FlatE(Tail(ts))
RECURSIVE TrimL(_), TrimR(_)
TrimL(s) == IF s # <<>> /\ IsWsE(Head(s)) THEN TrimL(Tail(s)) ELSE s
TrimR(s) == IF s # <<>> /\ IsWsE(s[Len(s)]) THEN TrimR(SubSeq(s, 1, Len(s) - 1)) ELSE s
Trim(s) == TrimR(TrimL(s))
\* display width of a section's text for the characters used (double-width: CJK and fullwidth forms; zero: combining marks, ZWSP)
Wid(c) == IF c \in (768..879) \cup {8203, 8204, 8205} THEN 0 ELSE IF (c >= 4352 /\ c <= 4447) \/ (c >= 11904 /\ c <= 42191) \/ (c >= 44032 /\ c <= 55203) \/ (c >= 63744 /\ c <= 64255) \/ (c >= 65280 /\ c <= 65376) THEN 2 ELSE 1
RECURSIVE Width(_)
Width(s) == IF s = <<>> THEN 0 ELSE Wid(Head(s)) + Width(Tail(s))
\* state of the walk over the coalesced operations:
\*   xo, yo   tokens of x / y consumed;  mp, pp  "previous operation" on the minus / plus side ("emph" | "non")
\*   mm, pm   marks per token so far (1 emphasised, 0 not);  num, den  distance numerator / denominator
RECURSIVE Walk(_, _, _, _)
Walk(x, y, cops, st) ==
  IF cops = <<>> THEN st
  ELSE
   LET op == Head(cops)[1]  n == Head(cops)[2] IN
   IF op = "D" THEN
      LET sec == FlatE(SubSeq(x, st.xo + 1, st.xo + n))  w == Width(Trim(sec)) IN
      Walk(x, y, Tail(cops), [st EXCEPT !.xo = @ + n, !.mm = @ \o [k \in 1..n |-> 1], !.mp = "emph", !.num = @ + w, !.den = @ + w])
   ELSE IF op = "I" THEN
      LET sec == FlatE(SubSeq(y, st.yo + 1, st.yo + n))  w == Width(Trim(sec)) IN
      Walk(x, y, Tail(cops), [st EXCEPT !.yo = @ + n, !.pm = @ \o [k \in 1..n |-> 1], !.pp = "emph", !.num = @ + w, !.den = @ + w])
   ELSE
      LET sec == FlatE(SubSeq(x, st.xo + 1, st.xo + n))  w == Width(Trim(sec))
          xo2 == st.xo + n                      \* (the minus offset has moved on when the test is made, the plus offset has not)
          space == Trim(sec) = <<>>
          join == space /\ st.mp = "emph" /\ st.pp = "emph" /\ (xo2 < Len(x) - 1 \/ st.yo < Len(y) - 1)
          mk == IF join THEN 1 ELSE 0
      IN Walk(x, y, Tail(cops), [st EXCEPT !.xo = xo2, !.yo = @ + n, !.mm = @ \o [k \in 1..n |-> mk], !.pm = @ \o [k \in 1..n |-> mk],
                                           !.mp = "non", !.pp = "non", !.den = @ + 2 * w])
Annotate(x, y) == Walk(x, y, Coalesced(x, y), [xo |-> 0, yo |-> 0, mp |-> "non", pp |-> "non", mm |-> <<>>, pm |-> <<>>, num |-> 0, den |-> 0])
\* marks per character of a line, from the marks per token (the walk starts at the cell (1,1): the leading empty token
\* is part of it)
RECURSIVE CharMarks(_, _, _)
CharMarks(toks, marks, k) == IF k > Len(toks) THEN <<>>
                             ELSE [q \in 1..Len(toks[k]) |-> IF k <= Len(marks) THEN marks[k] ELSE 0] \o CharMarks(toks, marks, k + 1)
\* distance <= threshold (thr in percent):  num / den <= thr / 100,  0 / 0 = 0
Within(a, thr) == IF a.den = 0 THEN TRUE ELSE a.num * 100 <= thr * a.den

\* the lines handed to infer_edits end in their newline, which is a token like any other separator character
WithNL(s) == Append(s, 10)
NoNL(marks) == SubSeq(marks, 1, Len(marks) - 1)

\* ---- infer_edits: greedy pairing, in order; naive = the threshold for subhunks with as many removed as added lines ----
\* result: [ms |-> <<[p, e]>>, ps |-> <<[p, e]>>] in input order
RECURSIVE Infer(_, _, _, _, _, _, _)
\* mi: next minus line; pi: plus lines emitted so far; outM / outP: results so far
Infer(re, thr, naive, ms, ps, mi, acc) ==
  IF mi > Len(ms) THEN
     [ms |-> acc.m, ps |-> acc.p \o [k \in 1..(Len(ps) - Len(acc.p)) |-> [p |-> FALSE, e |-> [q \in 1..Len(ps[Len(acc.p) + k]) |-> 0]]]]
  ELSE
     LET x == Tokenize(re, WithNL(ms[mi]))
         pi == Len(acc.p)
         \* first plus line at or after pi + 1 that is close enough
         Close(j) == LET a == Annotate(x, Tokenize(re, WithNL(ps[j]))) IN
                       (Len(ms) = Len(ps) /\ Within(a, naive)) \/ Within(a, thr)
         cand == {j \in (pi + 1)..Len(ps) : Close(j)}
     IN IF cand = {} THEN
           Infer(re, thr, naive, ms, ps, mi + 1, [acc EXCEPT !.m = Append(@, [p |-> FALSE, e |-> [q \in 1..Len(ms[mi]) |-> 0]])])
        ELSE
           LET j == CHOOSE j \in cand : \A q \in cand : j <= q
               y == Tokenize(re, WithNL(ps[j]))
               a == Annotate(x, y)
               skipped == [k \in 1..(j - pi - 1) |-> [p |-> FALSE, e |-> [q \in 1..Len(ps[pi + k]) |-> 0]]]
           IN Infer(re, thr, naive, ms, ps, mi + 1,
                    [m |-> Append(acc.m, [p |-> TRUE, e |-> NoNL(CharMarks(x, a.mm, 1))]),
                     p |-> acc.p \o skipped \o << [p |-> TRUE, e |-> NoNL(CharMarks(y, a.pm, 1))] >>])
InferEdits(re, thr, naive, ms, ps) == Infer(re, thr, naive, ms, ps, 1, [m |-> <<>>, p |-> <<>>])
=============================================================================
