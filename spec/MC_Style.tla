------------------------------ MODULE MC_Style ------------------------------
EXTENDS Style, TLC, Json
CONSTANTS MaxWords
VARIABLES ws
Words == {[k |-> "attr", v |-> <<1>>], [k |-> "attr", v |-> <<4>>], [k |-> "attr", v |-> <<7>>],
          [k |-> "color", v |-> <<1>>], [k |-> "color", v |-> <<12>>], [k |-> "color", v |-> <<10, 20, 30>>],
          [k |-> "color", v |-> <<>>], [k |-> "color", v |-> <<Syntax>>], [k |-> "flag", v |-> <<>>]}
Init == ws = <<>>
Next == Len(ws) < MaxWords /\ \E w \in Words : ws' = Append(ws, w)
Spec == Init /\ [][Next]_ws
\* the slot machine computes the declarative meaning, and rejects exactly the strings with a third colour or `syntax` as background
Agree == LET m == Meaning(ws) p == Parse(ws) IN p.ok = m.ok /\ (m.ok => p.fg = m.fg /\ p.bg = m.bg /\ p.at = m.at)
=============================================================================
