-------------------------------- MODULE Term --------------------------------
(* Terminal rendition state as far as delta's output can change it: SGR colours and      *)
(* attributes, the OSC 8 hyperlink, and what a newline must find.  Colours are integer   *)
(* tuples (<<>> default, <<n>> palette, <<r,g,b>> direct); attributes the SGR numbers    *)
(* 1..9.  Tokens are records [k : STRING, p : Seq(Nat), u : STRING]:                      *)
(*    k = "text"  p = <<number of graphemes, display width>>                              *)
(*    k = "sgr"   p = parameter list                                                      *)
(*    k = "osc8"  u = target ("" closes)                                                  *)
(*    k = "csiK"  erase to end of line (painted with the current background)              *)
(*    k = "other" a complete escape sequence delta does not generate itself                *)
(*    k = "bad"   an escape sequence cut off by the end of the row                         *)
EXTENDS Naturals, Sequences, FiniteSets

DefaultPen == [fg |-> <<>>, bg |-> <<>>, at |-> {}, link |-> ""]

IsDefault(pen) == pen.fg = <<>> /\ pen.bg = <<>> /\ pen.at = {} /\ pen.link = ""

AttrOff(p) == CASE p = 22 -> {1, 2}
                [] p = 23 -> {3}
                [] p = 24 -> {4}
                [] p = 25 -> {5, 6}
                [] p = 27 -> {7}
                [] p = 28 -> {8}
                [] p = 29 -> {9}
                [] OTHER  -> {}

\* Fold one SGR parameter list into the pen, left to right.
RECURSIVE Sgr(_, _, _)
Sgr(pen, ps, i) ==
  IF i > Len(ps) THEN pen
  ELSE LET p == ps[i] IN
    IF p = 0 THEN Sgr([pen EXCEPT !.fg = <<>>, !.bg = <<>>, !.at = {}], ps, i + 1)
    ELSE IF p \in 1..9 THEN Sgr([pen EXCEPT !.at = @ \cup {p}], ps, i + 1)
    ELSE IF p \in 21..29 THEN Sgr([pen EXCEPT !.at = @ \ AttrOff(p)], ps, i + 1)
    ELSE IF p \in 30..37 THEN Sgr([pen EXCEPT !.fg = <<p - 30>>], ps, i + 1)
    ELSE IF p \in 90..97 THEN Sgr([pen EXCEPT !.fg = <<p - 82>>], ps, i + 1)
    ELSE IF p \in 40..47 THEN Sgr([pen EXCEPT !.bg = <<p - 40>>], ps, i + 1)
    ELSE IF p \in 100..107 THEN Sgr([pen EXCEPT !.bg = <<p - 92>>], ps, i + 1)
    ELSE IF p = 39 THEN Sgr([pen EXCEPT !.fg = <<>>], ps, i + 1)
    ELSE IF p = 49 THEN Sgr([pen EXCEPT !.bg = <<>>], ps, i + 1)
    ELSE IF p \in {38, 48} THEN
      IF i + 2 <= Len(ps) /\ ps[i + 1] = 5 THEN
        Sgr(IF p = 38 THEN [pen EXCEPT !.fg = <<ps[i + 2]>>] ELSE [pen EXCEPT !.bg = <<ps[i + 2]>>], ps, i + 3)
      ELSE IF i + 4 <= Len(ps) /\ ps[i + 1] = 2 THEN
        Sgr(IF p = 38 THEN [pen EXCEPT !.fg = <<ps[i + 2], ps[i + 3], ps[i + 4]>>]
                      ELSE [pen EXCEPT !.bg = <<ps[i + 2], ps[i + 3], ps[i + 4]>>], ps, i + 5)
      ELSE pen   \* malformed extended colour: rest of the list is consumed, nothing changes
    ELSE Sgr(pen, ps, i + 1)

ApplyTok(pen, t) ==
  CASE t.k = "sgr"  -> Sgr(pen, t.p, 1)
    [] t.k = "osc8" -> [pen EXCEPT !.link = t.u]
    [] OTHER        -> pen

RECURSIVE FoldToks(_, _, _)
FoldToks(pen, toks, i) == IF i > Len(toks) THEN pen ELSE FoldToks(ApplyTok(pen, toks[i]), toks, i + 1)

\* A row is well formed if no escape is cut and the newline finds the default rendition.
NoBad(toks)       == \A i \in DOMAIN toks : toks[i].k # "bad"
EndPen(toks)      == FoldToks(DefaultPen, toks, 1)
RowClosed(toks)   == IsDefault(EndPen(toks))
LinkClosed(toks)  == EndPen(toks).link = ""

\* Every hyperlink opened is closed before another is opened or the row ends (balanced OSC 8).
RECURSIVE LinkBalancedFrom(_, _, _)
LinkBalancedFrom(open, toks, i) ==
  IF i > Len(toks) THEN ~open
  ELSE IF toks[i].k = "osc8" THEN
         IF toks[i].u = "" THEN open /\ LinkBalancedFrom(FALSE, toks, i + 1)
         ELSE ~open /\ LinkBalancedFrom(TRUE, toks, i + 1)
  ELSE LinkBalancedFrom(open, toks, i + 1)
LinkBalanced(toks) == LinkBalancedFrom(FALSE, toks, 1)

\* csiK (erase to end of line) paints with the current background; what follows it on the row
\* must reset, which RowClosed already demands.  Width of the visible text of a row:
RECURSIVE WidthFrom(_, _)
WidthFrom(toks, i) == IF i > Len(toks) THEN 0
                      ELSE (IF toks[i].k = "text" THEN toks[i].p[2] ELSE 0) + WidthFrom(toks, i + 1)
RowWidth(toks) == WidthFrom(toks, 1)
=============================================================================
