---------------------------- MODULE Trace_Numbers ----------------------------
(* Trace validation for C05.  One event per rendered file section:                        *)
(*   [run, mode, hunks, rows, hdr]                                                        *)
(*   mode "unified": rows = [k, nm, np]   one panel; k = identity of the line whose text   *)
(*                   starts on this row (0: continuation row of a wrapped line)            *)
(*   mode "sbs":     rows = [kl, nm, kr, np]  left / right panel                            *)
(*   hdr = numbers printed in the hunk headers, in order                                   *)
(*   every row also carries h (index of the hunk header it follows), and in side-by-side    *)
(*   mode z (a row of an unchanged line), sl / sr ("first" | "cont" | "none": what each       *)
(*   panel shows); from these the implementation-shaped model Numbers predicts the numbers    *)
(*   (drift report, never a verdict)                                                          *)
EXTENDS Obs_Numbers, TLC, Json, IOUtils

Rec == ndJsonDeserialize(IOEnv.TRACE)
VARIABLES l, failed, drift
vars == <<l, failed, drift>>
N == INSTANCE Numbers WITH Hack <- {"undo", "pair"}
ClsOf(e, k) == LET p == Locate(e.hunks, k) IN IF p = <<0, 0>> THEN "zero" ELSE e.hunks[p[1]].cls[p[2]]
AsRow(e, x) == IF e.mode = "unified" THEN [v |-> "u", l |-> IF x.k = 0 THEN "cont" ELSE "first", r |-> ClsOf(e, x.k)]
               ELSE [v |-> IF x.z THEN "z" ELSE "pm", l |-> x.sl, r |-> x.sr]
Drifts(e) == e.code = 0 /\ \E a \in DOMAIN e.hunks :
   LET rs == SelectSeq(e.rows, LAMBDA x : x.h = a)
       pred == N!Run([i \in DOMAIN rs |-> AsRow(e, rs[i])], 1, e.hunks[a].so, e.hunks[a].sn)
   IN \E i \in DOMAIN rs : pred[i].nl # rs[i].nm \/ pred[i].nr # rs[i].np

Known(e, k) == Locate(e.hunks, k) # <<0, 0>>

UnifiedBad(e) == {r \in DOMAIN e.rows :
   LET x == e.rows[r] IN
   IF x.k = 0 THEN x.nm # 0 \/ x.np # 0                          \* continuation rows carry none
   ELSE ~Known(e, x.k) \/ x.nm # WantOld(e.hunks, x.k) \/ x.np # WantNew(e.hunks, x.k)}

SbsBad(e) == {r \in DOMAIN e.rows :
   LET x == e.rows[r] IN
   \/ (x.kl = 0 /\ x.nm # 0) \/ (x.kr = 0 /\ x.np # 0)
   \/ (x.kl # 0 /\ (~Known(e, x.kl) \/ x.nm # WantOld(e.hunks, x.kl) \/ WantOld(e.hunks, x.kl) = 0))
   \/ (x.kr # 0 /\ (~Known(e, x.kr) \/ x.np # WantNew(e.hunks, x.kr) \/ WantNew(e.hunks, x.kr) = 0))}

\* every line shows up (once) on each side it belongs to
Shown(e) ==
  IF e.mode = "unified"
  THEN {e.rows[r].k : r \in DOMAIN e.rows} \ {0} = AllKs(e.hunks)
       /\ \A r1, r2 \in DOMAIN e.rows : (r1 # r2 /\ e.rows[r1].k # 0) => e.rows[r1].k # e.rows[r2].k
  ELSE /\ {e.rows[r].kl : r \in DOMAIN e.rows} \ {0} = OldKs(e.hunks)
       /\ {e.rows[r].kr : r \in DOMAIN e.rows} \ {0} = NewKs(e.hunks)

HeaderOK(e) == Len(e.hdr) = Len(e.hunks) /\ \A a \in DOMAIN e.hunks : e.hdr[a] = e.hunks[a].sn

Why(e) ==
  IF e.code # 0 THEN <<"exit", e.code>>
  ELSE IF ~HeaderOK(e) THEN <<"hunk-header-number", 0>>
  ELSE IF ~Shown(e) THEN <<"lines-shown", 0>>
  ELSE LET b == IF e.mode = "unified" THEN UnifiedBad(e) ELSE SbsBad(e) IN
       IF b = {} THEN <<"", 0>> ELSE <<"number", CHOOSE r \in b : \A q \in b : r <= q>>

Init == l = 1 /\ failed = <<>> /\ drift = <<>>
Next == /\ l <= Len(Rec)
        /\ l' = l + 1
        /\ LET e == Rec[l] w == Why(e) IN
             /\ failed' = IF w[1] = "" THEN failed ELSE Append(failed, [run |-> e.run, why |-> w[1], row |-> w[2]])
             /\ drift' = IF Drifts(e) THEN Append(drift, e.run) ELSE drift
Spec == Init /\ [][Next]_vars
Done == l <= Len(Rec) \/ (PrintT(<<"DRIFT", ToJson(drift)>>) /\ PrintT(<<"VERDICT", ToJson(failed)>>))
=============================================================================
