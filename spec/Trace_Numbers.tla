---------------------------- MODULE Trace_Numbers ----------------------------
(* Trace validation for C05.  One event per rendered file section:                        *)
(*   [run, mode, hunks, rows, hdr]                                                        *)
(*   mode "unified": rows = [k, nm, np]   one panel; k = identity of the line whose text   *)
(*                   starts on this row (0: continuation row of a wrapped line)            *)
(*   mode "sbs":     rows = [kl, nm, kr, np]  left / right panel                            *)
(*   hdr = numbers printed in the hunk headers, in order                                   *)
EXTENDS Obs_Numbers, TLC, Json, IOUtils

Rec == ndJsonDeserialize(IOEnv.TRACE)
VARIABLES l, failed
vars == <<l, failed>>

Known(e, k) == Locate(e.hunks, k) # <<0, 0>>

UnifiedBad(e) == {r \in DOMAIN e.rows :
   LET x == e.rows[r] IN
   IF x.k = 0 THEN x.nm # 0 \/ x.np # 0                          \* continuation rows carry none
   ELSE ~Known(e, x.k) \/ x.nm # WantOld(e.hunks, x.k) \/ x.np # WantNew(e.hunks, x.k)}

SbsBad(e) == {r \in DOMAIN e.rows :
   LET x == e.rows[r] IN
   \/ (x.kl = 0 /\ x.nm # 0) \/ (x.kr = 0 /\ x.np # 0)
   \/ (x.kl # 0 /\ (~Known(e, x.kl) \/ x.nm # WantOld(e.hunks, x.kl) \/ WantOld(e.hunks, x.kl) = 0))
   \/ (x.kr # 0 /\ (~Known(e, x.kr) \/ x.np # WantNew(e.hunks, x.kr) \/ WantNew(e.hunks, x.kr) = 0))}

\* every line shows up (once) on each side it belongs to
Shown(e) ==
  IF e.mode = "unified"
  THEN {e.rows[r].k : r \in DOMAIN e.rows} \ {0} = AllKs(e.hunks)
       /\ \A r1, r2 \in DOMAIN e.rows : (r1 # r2 /\ e.rows[r1].k # 0) => e.rows[r1].k # e.rows[r2].k
  ELSE /\ {e.rows[r].kl : r \in DOMAIN e.rows} \ {0} = OldKs(e.hunks)
       /\ {e.rows[r].kr : r \in DOMAIN e.rows} \ {0} = NewKs(e.hunks)

HeaderOK(e) == Len(e.hdr) = Len(e.hunks) /\ \A a \in DOMAIN e.hunks : e.hdr[a] = e.hunks[a].sn

Why(e) ==
  IF e.code # 0 THEN <<"exit", e.code>>
  ELSE IF ~HeaderOK(e) THEN <<"hunk-header-number", 0>>
  ELSE IF ~Shown(e) THEN <<"lines-shown", 0>>
  ELSE LET b == IF e.mode = "unified" THEN UnifiedBad(e) ELSE SbsBad(e) IN
       IF b = {} THEN <<"", 0>> ELSE <<"number", CHOOSE r \in b : \A q \in b : r <= q>>

Init == l = 1 /\ failed = <<>>
Next == /\ l <= Len(Rec)
        /\ l' = l + 1
        /\ LET e == Rec[l] w == Why(e) IN
             failed' = IF w[1] = "" THEN failed ELSE Append(failed, [run |-> e.run, why |-> w[1], row |-> w[2]])
Spec == Init /\ [][Next]_vars
Done == l <= Len(Rec) \/ PrintT(<<"VERDICT", ToJson(failed)>>)
=============================================================================
