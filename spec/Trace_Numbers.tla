---------------------------- MODULE Trace_Numbers ----------------------------
(* Trace validation for C05.  One event per rendered file section:                        *)
(*   [run, mode, hunks, rows, hdr]                                                        *)
(*   mode "unified": rows = [k, nm, np]   one panel; k = identity of the line whose text   *)
(*                   starts on this row (0: continuation row of a wrapped line)            *)
(*   mode "sbs":     rows = [kl, nm, kr, np]  left / right panel                            *)
(*   hdr = numbers printed in the hunk headers, in order                                   *)
(*   every row also carries h (index of the hunk header it follows), and in side-by-side    *)
(*   mode z (a row of an unchanged line), sl / sr ("first" | "cont" | "none": what each       *)
(*   panel shows); from these the implementation-shaped model Numbers predicts the numbers    *)
(*   (drift report, never a verdict)                                                          *)
EXTENDS Obs_Numbers, TLC, Json, IOUtils

Rec == ndJsonDeserialize(IOEnv.TRACE)
VARIABLES l, failed, drift
vars == <<l, failed, drift>>
N == INSTANCE Numbers WITH Hack <- {"v2"}
ClsOf(e, k) == LET p == Locate(e.hunks, k) IN IF p = <<0, 0>> THEN "zero" ELSE e.hunks[p[1]].cls[p[2]]
AsRow(e, x) == IF e.mode = "unified" THEN [v |-> "u", l |-> IF x.k = 0 THEN "cont" ELSE "first", r |-> ClsOf(e, x.k)]
               ELSE [v |-> IF x.z THEN "z" ELSE "pm", l |-> x.sl, r |-> x.sr]
\* the four numbers a row shows (left panel old/new, right panel old/new); unified rows have one panel
ShownNums(e, x) == IF e.mode = "unified" THEN [ll |-> x.nm, lr |-> x.np, rl |-> 0, rr |-> 0]
               ELSE [ll |-> x.nm, lr |-> x.npl, rl |-> x.nmr, rr |-> x.np]
Mask(e, p) == IF e.mode = "unified" THEN p
              ELSE [ll |-> IF e.fmt[1] THEN p.ll ELSE 0, lr |-> IF e.fmt[2] THEN p.lr ELSE 0,
                    rl |-> IF e.fmt[3] THEN p.rl ELSE 0, rr |-> IF e.fmt[4] THEN p.rr ELSE 0]
HunkRows(e, a) == SelectSeq(e.rows, LAMBDA x : x.h = a)
Drifts(e) == e.code = 0 /\ \E a \in DOMAIN e.hunks :
   LET rs == HunkRows(e, a)
       pred == N!Run([i \in DOMAIN rs |-> AsRow(e, rs[i])], 1, e.hunks[a].so, e.hunks[a].sn)
   IN \E i \in DOMAIN rs : Mask(e, pred[i]) # ShownNums(e, rs[i])
\* C05 by rows: every number a row shows is the true one for that row (empty halves and continuation rows included)
RowsBad(e) == {a \in DOMAIN e.hunks :
   LET rs == HunkRows(e, a) IN
   ~N!AllTrue([i \in DOMAIN rs |-> AsRow(e, rs[i])], e.hunks[a].so, e.hunks[a].sn, [i \in DOMAIN rs |-> ShownNums(e, rs[i])],
              IF e.mode = "unified" THEN <<TRUE, TRUE, TRUE, TRUE>> ELSE e.fmt)}

Known(e, k) == Locate(e.hunks, k) # <<0, 0>>

UnifiedBad(e) == {r \in DOMAIN e.rows :
   LET x == e.rows[r] IN
   IF x.k = 0 THEN x.nm # 0 \/ x.np # 0                          \* continuation rows carry none
   ELSE ~Known(e, x.k) \/ x.nm # WantOld(e.hunks, x.k) \/ x.np # WantNew(e.hunks, x.k)}

SbsBad(e) == {r \in DOMAIN e.rows :
   LET x == e.rows[r] IN
   \/ (x.kl = 0 /\ x.nm # 0) \/ (x.kr = 0 /\ x.np # 0)
   \/ (x.kl # 0 /\ (~Known(e, x.kl) \/ x.nm # WantOld(e.hunks, x.kl) \/ WantOld(e.hunks, x.kl) = 0))
   \/ (x.kr # 0 /\ (~Known(e, x.kr) \/ x.np # WantNew(e.hunks, x.kr) \/ WantNew(e.hunks, x.kr) = 0))}

\* every line shows up (once) on each side it belongs to
Shown(e) ==
  IF e.mode = "unified"
  THEN {e.rows[r].k : r \in DOMAIN e.rows} \ {0} = AllKs(e.hunks)
       /\ \A r1, r2 \in DOMAIN e.rows : (r1 # r2 /\ e.rows[r1].k # 0) => e.rows[r1].k # e.rows[r2].k
  ELSE /\ {e.rows[r].kl : r \in DOMAIN e.rows} \ {0} = OldKs(e.hunks)
       /\ {e.rows[r].kr : r \in DOMAIN e.rows} \ {0} = NewKs(e.hunks)

HeaderOK(e) == Len(e.hdr) = Len(e.hunks) /\ \A a \in DOMAIN e.hunks : e.hdr[a] = e.hunks[a].sn

Why(e) ==
  IF e.code # 0 THEN <<"exit", e.code>>
  ELSE IF ~HeaderOK(e) THEN <<"hunk-header-number", 0>>
  ELSE IF ~Shown(e) THEN <<"lines-shown", 0>>
  ELSE LET b == IF e.mode = "unified" THEN UnifiedBad(e) ELSE SbsBad(e) IN
       IF b # {} THEN <<"number", CHOOSE r \in b : \A q \in b : r <= q>>
       ELSE IF RowsBad(e) # {} THEN <<"number-on-row", CHOOSE a \in RowsBad(e) : TRUE>>
       ELSE <<"", 0>>

Init == l = 1 /\ failed = <<>> /\ drift = <<>>
Next == /\ l <= Len(Rec)
        /\ l' = l + 1
        /\ LET e == Rec[l] w == Why(e) IN
             /\ failed' = IF w[1] = "" THEN failed ELSE Append(failed, [run |-> e.run, why |-> w[1], row |-> w[2]])
             /\ drift' = IF Drifts(e) THEN Append(drift, e.run) ELSE drift
Spec == Init /\ [][Next]_vars
Done == l <= Len(Rec) \/ (PrintT(<<"DRIFT", ToJson(drift)>>) /\ PrintT(<<"VERDICT", ToJson(failed)>>))
=============================================================================
