---------------------------- MODULE Trace_Pager ----------------------------
(* Trace validation for C18.  One event per run of the real binary under a scenario:       *)
(*   [run, sc, code, stderr, hit, pager, rflag, got, sent, gotHash, sentHash, pagerDoneFirst, *)
(*    completed]                                                                           *)
(*   code / stderr   delta's exit status (999: timed out) / 1 iff anything was written to stderr  *)
(*   errLines        number of lines that arrived on delta's stderr                          *)
(*   pager           name of the pager that was started ("" none), rflag: it was given the   *)
(*                   raw-control-chars option                                               *)
(*   got, sent       bytes received by the consumer / bytes of the complete output            *)
(*   pagerDoneFirst  the pager had finished when delta returned                              *)
(*   plog            the observable events in the order recorded ("start", "got", "done",      *)
(*                   "delta-exit"); allowed = the event sequences of the terminating behaviours  *)
(*                   of PagerProto for this kind of pager (reads everything / stops, leaves /     *)
(*                   stays)                                                                        *)
EXTENDS Pager, TLC, Json, IOUtils
Rec == ndJsonDeserialize(IOEnv.TRACE)
VARIABLES l, failed
vars == <<l, failed>>

Scen(e) == [mode |-> e.sc.mode, out |-> e.sc.out, quit |-> e.sc.quit, status |-> e.sc.status,
            src |-> {x \in {"config", "delta", "bat", "pager"} : e.sc.src[x]}, pagerval |-> e.sc.pagerval,
            stay |-> e.sc.stay, big |-> e.sc.big, how |-> e.sc.how, bare |-> e.sc.bare, wf |-> e.sc.wf, wat |-> e.sc.wat, noisy |-> e.sc.noisy]

Why(e) ==
  LET sc == Scen(e) IN
  IF ~ExitOK(sc, e.code, e.hit) THEN "exit-status"
  ELSE IF WantQuiet(sc) /\ e.code = 0 /\ e.stderr # 0 /\ NormalExit(sc) = 0 THEN (IF sc.quit > 0 THEN "noise-on-quit" ELSE "noise-on-retried-write")
  ELSE IF e.code # 999 /\ ~StderrOK(sc, e.errLines) THEN "stderr-lost"
  ELSE IF sc.out = "pager" /\ e.pager # Chosen(sc) THEN "pager-choice"
  ELSE IF sc.out = "pager" /\ LessArgsAreDeltas(sc) /\ ~e.rflag THEN "less-without-R"
  ELSE IF ~DeliveredOK(sc, e.got, e.sent, e.gotHash, e.sentHash) THEN "not-delivered"
  ELSE IF sc.out = "pager" /\ ~e.pagerDoneFirst THEN "delta-exited-before-pager"
  \* the events an observer recorded (pager started / has its input / is done, delta exited) are a behaviour of PagerProto:
  \* one of the logs TLC printed for that kind of pager (allowed, from MC_PagerProto)
  ELSE IF sc.out = "pager" /\ ~\E i \in DOMAIN e.allowed : e.allowed[i] = e.plog THEN "not-a-behaviour-of-PagerProto"
  ELSE ""

Init == l = 1 /\ failed = <<>>
Next == /\ l <= Len(Rec)
        /\ l' = l + 1
        /\ LET e == Rec[l] w == Why(e) IN
             failed' = IF w = "" THEN failed ELSE Append(failed, [run |-> e.run, why |-> w])
Spec == Init /\ [][Next]_vars
Done == l <= Len(Rec) \/ PrintT(<<"VERDICT", ToJson(failed)>>)
=============================================================================
