SPECIFICATION Spec
CONSTANTS
  MaxLen = 4
  Sticky = TRUE
INVARIANTS Laws EmitAll
CHECK_DEADLOCK FALSE
