SPECIFICATION Spec
CONSTANT MaxWords = 5
INVARIANT Agree
CHECK_DEADLOCK FALSE
