SPECIFICATION Spec
CONSTANTS
  MaxWrites = 40
  Statuses = {0, 1, 2, 129}
INVARIANTS Total QuitIsQuiet Replay
CHECK_DEADLOCK FALSE
