SPECIFICATION Spec
CONSTANTS
  MaxWrites = 40
  Statuses = {0, 1, 2, 129}
  WriteFaultAt = {1, 2, 3, 7}
INVARIANTS Total QuitIsQuiet NoQuitNoLoss Replay
CHECK_DEADLOCK FALSE
