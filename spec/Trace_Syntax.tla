---------------------------- MODULE Trace_Syntax ----------------------------
(* Trace validation for the stateful half of C15: the language that colours a hunk line is  *)
(* the one its own file's name selects, whatever came before it in the stream.               *)
(* One event per run of the real binary:                                                      *)
(*   [run, lines, obs]                                                                        *)
(*   lines = input history [c, f, g, kd] (as in Trace_Stream)                                 *)
(*   obs   = for every output row that shows a hunk line: [k, hl]  k = index of the input     *)
(*           line, hl = the file ids (0 = no file: the default language) whose name, used in   *)
(*           a one-file diff of its own, colours that same text the way this row is coloured   *)
(*           (a mechanical comparison of foreground colours done by the harness; empty = the   *)
(*           row is coloured like none of them)                                               *)
(* Laws: every hunk line of a complete section is observed, and HunkFile(lines, k) \in hl.    *)
(* Drift (report only): Impl_Stream's prediction of the language (field sy) is not in hl.     *)
EXTENDS Obs_Stream, Json, IOUtils, TLC

Rec == ndJsonDeserialize(IOEnv.TRACE)
VARIABLES l, failed, drift
vars == <<l, failed, drift>>

IS == INSTANCE Impl_Stream WITH Modes <- {}, Buf <- 32, ColorOnly <- FALSE, Fixes <- {"D1", "D14", "D2", "D18", "D19", "D20", "D21", "D23", "D24", "D25"}
RECURSIVE ImplRun(_, _, _)
ImplRun(h, st, k) == IF k > Len(h) THEN st ELSE ImplRun(h, IS!Step(st, k, h[k]), k + 1)
ImplSy(e) == IS!Finish(ImplRun(e.lines, IS!InitS, 1)).sy

In(x, s) == \E i \in DOMAIN s : s[i] = x
BodyLines(h) == {k \in DOMAIN h : h[k].c \in BodyC /\ SecStart(h, k) > 0}
Judge(e) ==
  LET h == e.lines
      wrong == {i \in DOMAIN e.obs : SecStart(h, e.obs[i].k) > 0 /\ ~In(HunkFile(h, e.obs[i].k), e.obs[i].hl)}
      unseen == {k \in BodyLines(h) : ~\E i \in DOMAIN e.obs : e.obs[i].k = k}
  IN IF wrong # {} THEN LET i == CHOOSE i \in wrong : \A j \in wrong : i <= j
                        IN [why |-> "language", k |-> e.obs[i].k, want |-> HunkFile(h, e.obs[i].k)]
     ELSE IF unseen # {} THEN [why |-> "unseen", k |-> CHOOSE k \in unseen : TRUE, want |-> 0]
     ELSE [why |-> "", k |-> 0, want |-> 0]
Drifts(e) == LET sy == ImplSy(e) IN
             \E i \in DOMAIN e.obs : \E j \in DOMAIN sy : sy[j][1] = e.obs[i].k /\ ~In(sy[j][2], e.obs[i].hl)

Init == l = 1 /\ failed = <<>> /\ drift = <<>>
Next == /\ l <= Len(Rec)
        /\ l' = l + 1
        /\ LET e == Rec[l] v == Judge(e) IN
             /\ failed' = IF v.why = "" THEN failed ELSE Append(failed, [run |-> e.run] @@ v)
             /\ drift' = IF Drifts(e) THEN Append(drift, e.run) ELSE drift
Spec == Init /\ [][Next]_vars
Done == l <= Len(Rec) \/ (PrintT(<<"DRIFT", ToJson(drift)>>) /\ PrintT(<<"VERDICT", ToJson(failed)>>))
=============================================================================
