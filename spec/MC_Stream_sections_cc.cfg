SPECIFICATION Spec
CONSTANTS
  NF = 2
  MaxLen = 13
  Kinds = {"cc"}
  MaxHunks = 1
  MaxBody = 2
  Preamble = FALSE
  MaxConf = 1
  Buf = 1
  Fixes = {"D1", "D14", "D2", "D18", "D19", "D20", "D21", "D23", "D24", "D25"}
  ColorOnly = FALSE
  Modes = {}
  ReplayLen = 13
INVARIANTS RowsOnceInOrder Lag PrefixStable Boundary ReplaySections
CONSTRAINT OneSection
CHECK_DEADLOCK FALSE
