SPECIFICATION Spec
CONSTANTS
  FixNoProgress = TRUE
  MaxG = 5
  Widths = {2, 3, 4, 5}
  Limits = {0, 2, 3}
INVARIANTS Replay
CHECK_DEADLOCK FALSE
