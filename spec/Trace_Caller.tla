---------------------------- MODULE Trace_Caller ----------------------------
(* Trace validation for C20: the hook trace of one run of the real binary (every ordering  *)
(* point, in the order in which they happened, with the value the code reported there) must *)
(* be a behaviour of Caller, and the safety properties must hold in every state reached.    *)
(* Events: [run, label, value]; a run starts with label "reset" (value = "wrap" | "stdin"). *)
EXTENDS Caller, TLC, Json, IOUtils

Rec == ndJsonDeserialize(IOEnv.TRACE)
VARIABLES l, s, failed, dead
vars == <<l, s, failed, dead>>

Init == l = 1 /\ s = InitC /\ failed = <<>> /\ dead = FALSE
Next ==
  /\ l <= Len(Rec)
  /\ l' = l + 1
  /\ LET e == Rec[l] IN
     IF e.label = "reset" THEN s' = InitC /\ dead' = FALSE /\ failed' = failed
     ELSE IF dead THEN UNCHANGED <<s, failed, dead>>        \* rest of a run that already failed
     ELSE IF e.value = "TIMEOUT" THEN
          s' = s /\ dead' = TRUE /\ failed' = Append(failed, [run |-> e.run, at |-> l, why |-> "blocked-forever", label |-> e.label])
     ELSE IF ~Guard(s, e.label) THEN
          s' = s /\ dead' = TRUE /\ failed' = Append(failed, [run |-> e.run, at |-> l, why |-> "not-enabled", label |-> e.label])
     ELSE IF Value(s, e.label) # "" /\ Value(s, e.label) # e.value THEN
          s' = s /\ dead' = TRUE /\ failed' = Append(failed, [run |-> e.run, at |-> l, why |-> "value:" \o e.value, label |-> e.label])
     ELSE LET t == Update(s, e.label) IN
          /\ s' = t
          /\ IF NeverPending(t) /\ KnownWins(t) THEN dead' = FALSE /\ failed' = failed
             ELSE dead' = TRUE /\ failed' = Append(failed, [run |-> e.run, at |-> l, why |-> "safety", label |-> e.label])
Spec == Init /\ [][Next]_vars
Done == l <= Len(Rec) \/ PrintT(<<"VERDICT", ToJson(failed)>>)
=============================================================================
