---------------------------- MODULE Obs_Numbers ----------------------------
(* C05: displayed line numbers are the true old/new file line numbers.                    *)
(* A hunk is [so, sn, cls, ks]: start positions from its header, the classes of its lines *)
(* and their identities (ks[i] = the token that the harness put into line i).             *)
EXTENDS Naturals, Sequences, FiniteSets

Count(cls, i, S) == Cardinality({j \in 1..(i - 1) : cls[j] \in S})
TrueOld(h, i) == h.so + Count(h.cls, i, {"minus", "zero"})
TrueNew(h, i) == h.sn + Count(h.cls, i, {"plus", "zero"})

\* locate line identity k: <<hunk index, line index>> or <<0, 0>>
Locate(hunks, k) ==
  LET hits == {<<a, i>> \in (DOMAIN hunks) \X (1..64) : i <= Len(hunks[a].ks) /\ hunks[a].ks[i] = k}
  IN IF hits = {} THEN <<0, 0>> ELSE CHOOSE x \in hits : TRUE

\* what the old / new number columns must show beside line k (0 = blank)
WantOld(hunks, k) == LET p == Locate(hunks, k) h == hunks[p[1]] IN
                       IF h.cls[p[2]] \in {"minus", "zero"} THEN TrueOld(h, p[2]) ELSE 0
WantNew(hunks, k) == LET p == Locate(hunks, k) h == hunks[p[1]] IN
                       IF h.cls[p[2]] \in {"plus", "zero"} THEN TrueNew(h, p[2]) ELSE 0

AllKs(hunks) == UNION {{hunks[a].ks[i] : i \in DOMAIN hunks[a].ks} : a \in DOMAIN hunks}
OldKs(hunks) == UNION {{hunks[a].ks[i] : i \in {j \in DOMAIN hunks[a].ks : hunks[a].cls[j] \in {"minus", "zero"}}} : a \in DOMAIN hunks}
NewKs(hunks) == UNION {{hunks[a].ks[i] : i \in {j \in DOMAIN hunks[a].ks : hunks[a].cls[j] \in {"plus", "zero"}}} : a \in DOMAIN hunks}
=============================================================================
