SPECIFICATION Spec
INVARIANT Done
CHECK_DEADLOCK FALSE
