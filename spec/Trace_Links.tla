---------------------------- MODULE Trace_Links ----------------------------
(* C19: hyperlinks point at the right target.  One event per run with --hyperlinks:         *)
(*   [run, parts, cparts, cwd, host, rows]                                                   *)
(*   parts / cparts  the file / commit link templates split into literal parts and the        *)
(*                   placeholders "{path}", "{line}", "{host}", "{commit}"                     *)
(*   rows[i] = [k, abs, links]:  k kind of row ("fileHdr", "hunkHdr", "code", "commit",         *)
(*             "other"), abs = absolute form of the file path a hunk header row displays ("" otherwise), *)
(*             links = the OSC 8 spans of the row: [text, abs, url, kind, line]                  *)
(* Laws: a link on a path in a header points to that file (absolute); a link on a line number  *)
(* points to the file of the enclosing hunk (the path its hunk header displays) and to exactly   *)
(* the number displayed; a link on a commit hash carries exactly that hash.                      *)
EXTENDS Naturals, Sequences, FiniteSets, TLC, Json, IOUtils
Rec == ndJsonDeserialize(IOEnv.TRACE)
VARIABLES l, failed
vars == <<l, failed>>

RECURSIVE Fill(_, _, _, _, _, _)
Fill(parts, i, path, line, host, commit) ==
  IF i > Len(parts) THEN ""
  ELSE (CASE parts[i] = "{path}" -> path [] parts[i] = "{line}" -> line [] parts[i] = "{host}" -> host
          [] parts[i] = "{commit}" -> commit [] OTHER -> parts[i]) \o Fill(parts, i + 1, path, line, host, commit)
\* (the harness supplies, next to each displayed path, the absolute normalised path it denotes
\* relative to the directory the paths are relative to: a mechanical path join)
FileUrl(e, abs, line) == Fill(e.parts, 1, abs, line, e.host, "")
CommitUrl(e, c) == Fill(e.cparts, 1, "", "", e.host, c)

\* file of the hunk a code row belongs to: the path displayed by the nearest hunk header above
RECURSIVE HunkPath(_, _)
HunkPath(rows, i) == IF i = 0 THEN "" ELSE IF rows[i].k = "hunkHdr" THEN rows[i].abs ELSE HunkPath(rows, i - 1)


LinkOK(e, i, lk) ==
  LET r == e.rows[i] IN
  CASE lk.kind = "path"   -> lk.url = FileUrl(e, lk.abs, IF r.k = "hunkHdr" THEN lk.line ELSE "")
    [] lk.kind = "num"    -> HunkPath(e.rows, i) # "" /\ lk.url = FileUrl(e, HunkPath(e.rows, i), lk.text)
    [] lk.kind = "commit" -> lk.url = CommitUrl(e, lk.text)
    [] OTHER              -> FALSE

Bad(e) == {i \in DOMAIN e.rows : \E j \in DOMAIN e.rows[i].links : ~LinkOK(e, i, e.rows[i].links[j])}
Init == l = 1 /\ failed = <<>>
Next == /\ l <= Len(Rec)
        /\ l' = l + 1
        /\ LET e == Rec[l] b == Bad(e) IN
             failed' = IF b = {} THEN failed ELSE Append(failed, [run |-> e.run, row |-> CHOOSE i \in b : \A j \in b : i <= j])
Spec == Init /\ [][Next]_vars
Done == l <= Len(Rec) \/ PrintT(<<"VERDICT", ToJson(failed)>>)
=============================================================================
