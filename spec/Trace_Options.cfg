SPECIFICATION Spec
CONSTANTS
  NoGitRec = TRUE
INVARIANT Done
CHECK_DEADLOCK FALSE
