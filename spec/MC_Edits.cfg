SPECIFICATION Spec
CONSTANTS
  Alphabet = {97, 98, 32}
  MaxLen = 3
  Thrs = {0, 60, 100}
  Res = {"w", "dot", "S"}
  MaxLines = 1
INVARIANTS Laws
CHECK_DEADLOCK FALSE
