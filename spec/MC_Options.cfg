SPECIFICATION Spec
CONSTANTS
  SortedFlags = TRUE
  Emit = FALSE
INVARIANTS WithinDocumented Deterministic
CHECK_DEADLOCK FALSE
