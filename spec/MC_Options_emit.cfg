SPECIFICATION Spec
CONSTANTS
  NoGitRec = TRUE
  SortedFlags = TRUE
  Emit = TRUE
INVARIANTS WithinDocumented Deterministic LnRight Replay
CHECK_DEADLOCK FALSE
