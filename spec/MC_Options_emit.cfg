SPECIFICATION Spec
CONSTANTS
  SortedFlags = TRUE
  Emit = TRUE
INVARIANTS WithinDocumented Deterministic Replay
CHECK_DEADLOCK FALSE
