SPECIFICATION Spec
CONSTANTS
  NF = 1
  MaxLen = 10
  Kinds = {"sublog", "subshort", "mod", "modeonly", "subdel", "subadd"}
  MaxHunks = 1
  MaxBody = 2
  Preamble = TRUE
  MaxConf = 1
  Buf = 1
  Fixes = {"D1", "D14", "D2", "D18", "D19", "D20", "D21", "D23", "D24", "D25"}
  ColorOnly = FALSE
  Modes = {}
  ReplayLen = 0
INVARIANTS RowsOnceInOrder Lag PrefixStable Boundary LanguageByName Replay
PROPERTY NeverRevised
CHECK_DEADLOCK FALSE
