/* LD_PRELOAD shim: the consumer of delta's stdout "goes away" at a chosen write.
 * WRITESHIM_FAIL_AT=n : the n-th write(2)/writev(2) on fd WRITESHIM_FD (default 1) and all later ones
 * fail with EPIPE.  WRITESHIM_LOG=file : total number of write calls on that fd is appended at exit.
 * WRITESHIM_SHORT_AT=n : the n-th such call, if it was given more than one byte, transfers only the first half of them and
 *   returns that count (what write(2) does when a signal arrives while it waits for room in a pipe);
 *   WRITESHIM_SHORT_EVERY=1: so do all later calls.
 * WRITESHIM_EINTR_AT=n : the n-th such call fails with EINTR, nothing transferred (a signal arrived before any room).
 * WRITESHIM_FD=-1 : every descriptor above 2 that is a pipe, and 1 (the pipe towards a pager).
 * WRITESHIM_COMM=name : only in a process of that name (/proc/self/comm); children that inherit LD_PRELOAD are left alone. */
#define _GNU_SOURCE
#include <dlfcn.h>
#include <errno.h>
#include <stdio.h>
#include <stdlib.h>
#include <string.h>
#include <sys/stat.h>
#include <sys/uio.h>
#include <unistd.h>

static long count = 0;
static long fail_at = -1;
static int fd_watch = 1;
static int inited = 0;
static long short_at = -1, eintr_at = -1;
static int short_every = 0, active = 1;
static int watched(int fd) {
  if (!active) return 0;
  if (fd_watch >= 0) return fd == fd_watch;
  if (fd == 1) return 1;
  if (fd <= 2) return 0;
  struct stat st;
  return fstat(fd, &st) == 0 && S_ISFIFO(st.st_mode);
}

static void fin(void) {
  const char *log = getenv("WRITESHIM_LOG");
  if (log) {
    FILE *f = fopen(log, "a");
    if (f) { fprintf(f, "%ld\n", count); fclose(f); }
  }
}
static void init(void) {
  if (inited) return;
  inited = 1;
  const char *s = getenv("WRITESHIM_FAIL_AT");
  if (s) fail_at = atol(s);
  s = getenv("WRITESHIM_FD");
  if (s) fd_watch = atoi(s);
  s = getenv("WRITESHIM_SHORT_AT");
  if (s) short_at = atol(s);
  s = getenv("WRITESHIM_EINTR_AT");
  if (s) eintr_at = atol(s);
  short_every = getenv("WRITESHIM_SHORT_EVERY") != 0;
  s = getenv("WRITESHIM_COMM");
  if (s) {
    char comm[64] = "";
    FILE *f = fopen("/proc/self/comm", "r");
    if (f) { if (fgets(comm, sizeof comm, f)) comm[strcspn(comm, "\n")] = 0; fclose(f); }
    active = strcmp(comm, s) == 0;
  }
  if (active) atexit(fin);
}
ssize_t write(int fd, const void *buf, size_t n) {
  static ssize_t (*real)(int, const void *, size_t) = 0;
  if (!real) real = dlsym(RTLD_NEXT, "write");
  init();
  if (watched(fd)) {
    count++;
    if (fail_at > 0 && count >= fail_at) { errno = EPIPE; return -1; }
    if (eintr_at > 0 && count == eintr_at) { errno = EINTR; return -1; }
    if (short_at > 0 && n > 1 && (count == short_at || (short_every && count > short_at))) return real(fd, buf, n / 2);
  }
  return real(fd, buf, n);
}
ssize_t writev(int fd, const struct iovec *iov, int iovcnt) {
  static ssize_t (*real)(int, const struct iovec *, int) = 0;
  if (!real) real = dlsym(RTLD_NEXT, "writev");
  init();
  if (watched(fd)) {
    count++;
    if (fail_at > 0 && count >= fail_at) { errno = EPIPE; return -1; }
    if (eintr_at > 0 && count == eintr_at) { errno = EINTR; return -1; }
    if (short_at > 0 && iovcnt > 0 && iov[0].iov_len > 1 && (count == short_at || (short_every && count > short_at))) {
      static ssize_t (*realw)(int, const void *, size_t) = 0;
      if (!realw) realw = dlsym(RTLD_NEXT, "write");
      return realw(fd, iov[0].iov_base, iov[0].iov_len / 2);
    }
  }
  return real(fd, iov, iovcnt);
}
