/* LD_PRELOAD shim: the consumer of delta's stdout "goes away" at a chosen write.
 * WRITESHIM_FAIL_AT=n : the n-th write(2)/writev(2) on fd WRITESHIM_FD (default 1) and all later ones
 * fail with EPIPE.  WRITESHIM_LOG=file : total number of write calls on that fd is appended at exit. */
#define _GNU_SOURCE
#include <dlfcn.h>
#include <errno.h>
#include <stdio.h>
#include <stdlib.h>
#include <sys/uio.h>
#include <unistd.h>

static long count = 0;
static long fail_at = -1;
static int fd_watch = 1;
static int inited = 0;

static void fin(void) {
  const char *log = getenv("WRITESHIM_LOG");
  if (log) {
    FILE *f = fopen(log, "a");
    if (f) { fprintf(f, "%ld\n", count); fclose(f); }
  }
}
static void init(void) {
  if (inited) return;
  inited = 1;
  const char *s = getenv("WRITESHIM_FAIL_AT");
  if (s) fail_at = atol(s);
  s = getenv("WRITESHIM_FD");
  if (s) fd_watch = atoi(s);
  atexit(fin);
}
ssize_t write(int fd, const void *buf, size_t n) {
  static ssize_t (*real)(int, const void *, size_t) = 0;
  if (!real) real = dlsym(RTLD_NEXT, "write");
  init();
  if (fd == fd_watch) {
    count++;
    if (fail_at > 0 && count >= fail_at) { errno = EPIPE; return -1; }
  }
  return real(fd, buf, n);
}
ssize_t writev(int fd, const struct iovec *iov, int iovcnt) {
  static ssize_t (*real)(int, const struct iovec *, int) = 0;
  if (!real) real = dlsym(RTLD_NEXT, "writev");
  init();
  if (fd == fd_watch) {
    count++;
    if (fail_at > 0 && count >= fail_at) { errno = EPIPE; return -1; }
  }
  return real(fd, iov, iovcnt);
}
