/* Stub for wrapped commands (git, rg) and pagers' producers: prints the file named by $STUB_OUT to
 * stdout, appends its argv to $STUB_LOG (one line), exits with $STUB_EXIT (default 0).
 * $STUB_ERR_LINES: number of lines written to stderr before anything is written to stdout. */
#include <stdio.h>
#include <stdlib.h>
#include <string.h>
#include <sys/wait.h>
#include <unistd.h>
#include <fcntl.h>
int main(int argc, char **argv) {
  /* $STUB_CHILD: run that shell command as a child (the stub stays its parent process, so that the
   * child sees e.g. "git log -p" as the command that called it) and exit with its status. */
  const char *child = getenv("STUB_CHILD");
  if (child) {
    char *cmd = strdup(child);
    unsetenv("STUB_CHILD");
    pid_t pid = fork();
    if (pid == 0) {
      execl("/bin/sh", "sh", "-c", cmd, (char *)0);
      _exit(127);
    }
    int st = 0;
    waitpid(pid, &st, 0);
    return WIFEXITED(st) ? WEXITSTATUS(st) : 128;
  }
  const char *log = getenv("STUB_LOG");
  if (log) {
    FILE *f = fopen(log, "a");
    if (f) {
      for (int i = 0; i < argc; i++) fprintf(f, "%s%s", i ? "\x1f" : "", argv[i]);
      fprintf(f, "\n");
      fclose(f);
    }
  }
  /* $STUB_STREAM: pass $STUB_OUT (a FIFO) through as it arrives, read(2) by read(2), unbuffered */
  if (getenv("STUB_STREAM") && getenv("STUB_OUT")) {
    int fd = open(getenv("STUB_OUT"), O_RDONLY);
    if (fd >= 0) {
      char buf[65536];
      ssize_t n;
      while ((n = read(fd, buf, sizeof buf)) > 0) {
        ssize_t off = 0;
        while (off < n) {
          ssize_t w = write(1, buf + off, n - off);
          if (w <= 0) return 1;
          off += w;
        }
      }
      close(fd);
    }
    const char *e2 = getenv("STUB_EXIT");
    return e2 ? atoi(e2) : 0;
  }
  /* $STUB_DELAY_MS: wait that long before anything is written (a command that takes its time) */
  const char *dl = getenv("STUB_DELAY_MS");
  if (dl) usleep((useconds_t)atol(dl) * 1000);
  /* $STUB_ERR_LINES: that many diagnostic lines on stderr first (a command that complains a lot) */
  const char *el = getenv("STUB_ERR_LINES");
  if (el) {
    long n = atol(el);
    for (long i = 0; i < n; i++) fprintf(stderr, "error: branch 'nonexistent-branch-name-%ld' not found.\n", i);
    fflush(stderr);
  }
  const char *out = getenv("STUB_OUT");
  if (out) {
    FILE *f = fopen(out, "rb");
    if (f) {
      char buf[65536];
      size_t n;
      while ((n = fread(buf, 1, sizeof buf, f)) > 0) fwrite(buf, 1, n, stdout);
      fclose(f);
    }
  }
  fflush(stdout);
  const char *e = getenv("STUB_EXIT");
  return e ? atoi(e) : 0;
}
