/* Stub for wrapped commands (git, rg) and pagers' producers: prints the file named by $STUB_OUT to
 * stdout, appends its argv to $STUB_LOG (one line), exits with $STUB_EXIT (default 0). */
#include <stdio.h>
#include <stdlib.h>
#include <string.h>
int main(int argc, char **argv) {
  const char *log = getenv("STUB_LOG");
  if (log) {
    FILE *f = fopen(log, "a");
    if (f) {
      for (int i = 0; i < argc; i++) fprintf(f, "%s%s", i ? "\x1f" : "", argv[i]);
      fprintf(f, "\n");
      fclose(f);
    }
  }
  const char *out = getenv("STUB_OUT");
  if (out) {
    FILE *f = fopen(out, "rb");
    if (f) {
      char buf[65536];
      size_t n;
      while ((n = fread(buf, 1, sizeof buf, f)) > 0) fwrite(buf, 1, n, stdout);
      fclose(f);
    }
  }
  fflush(stdout);
  const char *e = getenv("STUB_EXIT");
  return e ? atoi(e) : 0;
}
