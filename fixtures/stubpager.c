/* Stub pager (installed under several names: less, mypager, otherpager, ...).
 * Appends to $PAGER_LOG:  "start <argv0-basename> <argv joined by \x1f>" ,  "got <bytes> <fnv1a-hash>" ,
 * "done".  $PAGER_QUIT_AFTER=n : stop reading after n bytes and exit at once (the user pressed q).
 * $PAGER_LINGER_MS=m : after end of input wait m ms before exiting (the user keeps reading).
 * $PAGER_STAY_MS=m : having stopped reading ($PAGER_QUIT_AFTER), close stdin but stay alive for m ms (a pager
 * that is still busy - redrawing, restoring the terminal, a wrapper script - after it has stopped reading).
 * Called as `less --version` it prints a version banner (delta asks). */
#include <stdio.h>
#include <stdlib.h>
#include <string.h>
#include <unistd.h>

static void logline(const char *s) {
  const char *log = getenv("PAGER_LOG");
  if (!log) return;
  FILE *f = fopen(log, "a");
  if (!f) return;
  fputs(s, f);
  fputc('\n', f);
  fclose(f);
}
int main(int argc, char **argv) {
  const char *base = strrchr(argv[0], '/');
  base = base ? base + 1 : argv[0];
  for (int i = 1; i < argc; i++)
    if (!strcmp(argv[i], "--version")) { printf("less 608 (stub)\n"); return 0; }
  char buf[8192];
  int off = snprintf(buf, sizeof buf, "start %s ", base);
  for (int i = 1; i < argc && off < (int)sizeof buf - 2; i++)
    off += snprintf(buf + off, sizeof buf - off, "%s%s", i > 1 ? "\x1f" : "", argv[i]);
  logline(buf);
  const char *lr = getenv("LESSCHARSET");
  snprintf(buf, sizeof buf, "env LESSCHARSET=%s", lr ? lr : "");
  logline(buf);
  long quit_after = -1;
  const char *q = getenv("PAGER_QUIT_AFTER");
  if (q) quit_after = atol(q);
  long got = 0;
  unsigned long long h = 1469598103934665603ULL;
  char in[4096];
  int quit = 0;
  while (!quit) {
    size_t want = sizeof in;
    if (quit_after >= 0 && (long)want > quit_after - got) want = (size_t)(quit_after - got);
    if (want == 0) { quit = 1; break; }
    ssize_t n = read(0, in, want);
    if (n <= 0) break;
    for (ssize_t i = 0; i < n; i++) { h ^= (unsigned char)in[i]; h *= 1099511628211ULL; }
    got += n;
  }
  snprintf(buf, sizeof buf, "got %ld %llu", got, h);
  logline(buf);
  if (!quit) {
    const char *l = getenv("PAGER_LINGER_MS");
    if (l) usleep(atol(l) * 1000);
  } else {
    const char *l = getenv("PAGER_STAY_MS");
    if (l) { close(0); usleep(atol(l) * 1000); }
  }
  logline("done");
  const char *e = getenv("PAGER_EXIT");
  return e ? atoi(e) : 0;
}
