#!/bin/sh
# Build everything the checks need, offline, from files on disk only.
set -e
cd "$(dirname "$0")"
mkdir -p build/fixtures evidence
if [ -d fixtures ]; then
  for c in fixtures/*.c; do
    [ -e "$c" ] || continue
    n=$(basename "$c" .c)
    case "$n" in
      writeshim) cc -O1 -shared -fPIC -o build/fixtures/writeshim.so "$c" -ldl ;;
      *) cc -O1 -o "build/fixtures/$n" "$c" ;;
    esac
  done
fi
# stub executables named like the commands delta wraps
mkdir -p build/fixtures/bin
if [ -x build/fixtures/stubcmd ]; then
  # (copy, then rename: a stub that is still running somewhere must not make the installation fail)
  for n in git rg; do cp build/fixtures/stubcmd build/fixtures/bin/.$n.new && mv -f build/fixtures/bin/.$n.new build/fixtures/bin/$n; done
fi
# stub pagers: a directory with `less` (to be put first in PATH) and differently named pagers
mkdir -p build/fixtures/pagers
if [ -x build/fixtures/stubpager ]; then
  for n in less mypager otherpager batpager envpager; do cp build/fixtures/stubpager build/fixtures/pagers/.$n.new && mv -f build/fixtures/pagers/.$n.new build/fixtures/pagers/$n; done
fi
python3 - <<'PY'
import sys
sys.path.insert(0, ".")
from harness import core
core.build()
PY
echo "setup ok"
