"""Core of the verification harness: build, run, evidence, replay files, known findings.

Python does mechanical work only (build, run processes, lex bytes, move JSON around).
Judgement lives in the TLA+ specifications under /verif/spec and is evaluated by TLC.
"""
import base64
import concurrent.futures as cf
import fcntl
import hashlib
import json
import os
import shutil
import subprocess
import sys
import tempfile
import threading
import time

VERIF = os.path.dirname(os.path.dirname(os.path.abspath(__file__)))
REPO = os.environ.get("VERIF_REPO", "/repo")
OUT = os.environ.get("VERIF_OUT", VERIF)     # where evidence/ and replays/ are written
BUILD = os.environ.get("VERIF_BUILD", os.path.join(VERIF, "build"))
TARGET = os.path.join(BUILD, "target")
DELTA = os.path.join(TARGET, "debug", "delta")
FIXBIN = os.path.join(BUILD, "fixtures")
GUARD = "dandavison_delta_verif"
NPROC = int(os.environ.get("VERIF_JOBS", str(os.cpu_count() or 8)))


class ToolError(Exception):
    """The tooling (cargo, TLC, harness) failed: exit status 2, never a verdict."""


def seed():
    try:
        return int(os.environ.get("VERIF_SEED", "0"))
    except ValueError:
        return 0


def log(*a):
    print(*a, flush=True)


# ---------------------------------------------------------------------------------------------
# build

_built = False


def build():
    """Build delta from /repo's current working tree with the hook cfg on. Serialised by flock."""
    global _built
    if _built:
        return DELTA
    os.makedirs(BUILD, exist_ok=True)
    lock = open(os.path.join(BUILD, ".lock"), "w")
    fcntl.flock(lock, fcntl.LOCK_EX)
    try:
        env = dict(os.environ)
        env["RUSTFLAGS"] = f"--cfg {GUARD} --check-cfg cfg({GUARD})"
        env["CARGO_NET_OFFLINE"] = "true"
        cmd = [
            "cargo", "build", "--offline", "--quiet",
            "--manifest-path", os.path.join(REPO, "Cargo.toml"),
            "--target-dir", TARGET,
            "--config", "profile.dev.overflow-checks=true",
            "--config", "profile.dev.debug-assertions=false",
            "--config", "profile.dev.opt-level=1",
            "--config", "profile.dev.debug=false",
        ]
        t0 = time.time()
        p = subprocess.run(cmd, env=env, stdout=subprocess.PIPE, stderr=subprocess.STDOUT, text=True)
        if p.returncode != 0:
            sys.stdout.write(p.stdout[-4000:])
            raise ToolError("cargo build failed")
        log(f"[build] delta built from {REPO} in {time.time()-t0:.1f}s")
    finally:
        fcntl.flock(lock, fcntl.LOCK_UN)
        lock.close()
    _built = True
    return DELTA


def binary_hash():
    h = hashlib.sha256()
    with open(DELTA, "rb") as f:
        for chunk in iter(lambda: f.read(1 << 20), b""):
            h.update(chunk)
    return h.hexdigest()[:16]


# ---------------------------------------------------------------------------------------------
# running delta

_scratch = None
_scratch_lock = __import__("threading").Lock()


def scratch():
    """A per-process scratch directory outside any git repository (cwd of delta runs)."""
    global _scratch
    with _scratch_lock:
        if _scratch is None:
            d = tempfile.mkdtemp(prefix="delta-verif-")
            os.makedirs(os.path.join(d, "home"))
            os.makedirs(os.path.join(d, "cwd"))
            import atexit
            atexit.register(lambda: shutil.rmtree(d, ignore_errors=True))
            _scratch = d
    return _scratch


def base_env(extra=None):
    s = scratch()
    env = {
        "HOME": os.path.join(s, "home"),
        "XDG_CONFIG_HOME": os.path.join(s, "home"),
        "GIT_CONFIG_NOSYSTEM": "1",
        "GIT_CONFIG_GLOBAL": "/dev/null",
        "PATH": "/usr/bin:/bin",
        "TERM": "xterm-256color",
        "COLORTERM": "truecolor",
        "LC_ALL": "C.UTF-8",
        "TZ": "UTC",
        "RUST_BACKTRACE": "0",
    }
    if extra:
        for k, v in extra.items():
            if v is None:
                env.pop(k, None)
            else:
                env[k] = v
    return env


class Run:
    __slots__ = ("argv", "stdin", "out", "err", "code", "timed_out", "wall", "env", "cwd")

    def to_json(self):
        return {
            "argv": self.argv,
            "env": self.env,
            "cwd": self.cwd,
            "stdin_b64": base64.b64encode(self.stdin or b"").decode(),
            "stdout_b64": base64.b64encode(self.out[:200000]).decode(),
            "stderr": self.err[:4000].decode("utf-8", "replace"),
            "code": self.code,
            "timed_out": self.timed_out,
        }


_RETRY_LOCK = threading.Lock()
_CONFIRMED_TIMEOUTS = [0]


def run_delta(args, stdin=b"", env=None, timeout=20, cwd=None, binary=None, mem_kb=None,
              prefix_args=("--paging", "never"), allow_usage_error=False):
    """Run the freshly built delta once. Returns a Run. Never raises on crash (a crash is data)."""
    r = Run()
    r.argv = [binary or DELTA] + list(prefix_args) + list(args)
    r.stdin = stdin
    r.env = env or {}
    r.cwd = cwd or os.path.join(scratch(), "cwd")
    full_env = base_env(env)
    t0 = time.time()

    argv = r.argv
    if mem_kb:
        # address-space cap (C03: runaway allocation must not take the machine down)
        argv = ["prlimit", f"--as={mem_kb * 1024}", "--core=0"] + argv
    # A time-out is a verdict ("did not terminate") only if it is not the machine's fault: a run that exceeds its
    # budget is repeated once, alone (under a lock, so that at most one such retry runs at a time) and with a budget
    # three times as large (at least a minute); only if that one times out too is the run reported as timed out.
    for attempt in (0, 1):
        if attempt == 1 and _CONFIRMED_TIMEOUTS[0] >= 2:
            break          # non-termination has been confirmed several times in this check: no need to wait again
        budget = timeout if attempt == 0 else max(60, timeout * 3)
        if attempt == 0 and _CONFIRMED_TIMEOUTS[0] >= 2:
            budget = min(timeout, 10)       # (the check has failed already: do not wait long for every further run that hangs)
        try:
            if attempt == 1:
                _RETRY_LOCK.acquire()
                if _CONFIRMED_TIMEOUTS[0] >= 2:
                    break      # (confirmed meanwhile by the runs that waited in front of this one)
            # (own session: on a time-out the whole tree is removed - delta may have children of its own, a pager or a wrapped
            # command, and may itself be the child of a shell; a survivor holding the pipes must not keep this call waiting)
            p = subprocess.Popen(argv, stdin=subprocess.PIPE, env=full_env, cwd=r.cwd, stdout=subprocess.PIPE, stderr=subprocess.PIPE,
                                 start_new_session=True)
            try:
                out, err = p.communicate(stdin, timeout=budget)
                r.out, r.err, r.code, r.timed_out = out, err, p.returncode, False
                break
            except subprocess.TimeoutExpired:
                import signal
                try:
                    os.killpg(p.pid, signal.SIGKILL)
                except OSError:
                    pass
                try:
                    out, err = p.communicate(timeout=10)
                except subprocess.TimeoutExpired:
                    out, err = b"", b""
                    for f in (p.stdout, p.stderr):
                        try:
                            f.close()
                        except OSError:
                            pass
                r.out, r.err, r.code, r.timed_out = out or b"", err or b"", -999, True
                if attempt == 1:
                    _CONFIRMED_TIMEOUTS[0] += 1
        except OSError as e:
            r.out, r.err, r.code, r.timed_out = b"", str(e).encode(), -998, False
            break
        finally:
            if attempt == 1:
                _RETRY_LOCK.release()
    r.wall = time.time() - t0
    if not allow_usage_error and r.code == 2 and b"Usage:" in r.err:
        # clap rejected the command line: a mistake of the harness, never a verdict about delta
        raise ToolError("delta rejected the harness's arguments: " + " ".join(r.argv[1:])[:300] + " :: "
                        + lexer_strip(r.err)[:300])
    return r


def lexer_strip(b):
    import re
    return re.sub(rb"\x1b\[[0-9;]*m", b"", b).decode("utf-8", "replace")


def pmap(fn, items, jobs=None):
    """Parallel map preserving order (threads; the work is in child processes)."""
    items = list(items)
    if not items:
        return []
    with cf.ThreadPoolExecutor(max_workers=jobs or NPROC) as ex:
        return list(ex.map(fn, items))


# ---------------------------------------------------------------------------------------------
# replay files, known findings, evidence

def write_replay(pid, payload):
    d = os.path.join(OUT, "replays", pid)
    os.makedirs(d, exist_ok=True)
    blob = json.dumps(payload, sort_keys=True, default=str)
    name = hashlib.sha256(blob.encode()).hexdigest()[:12] + ".json"
    path = os.path.join(d, name)
    with open(path, "w") as f:
        json.dump(payload, f, indent=1, sort_keys=True, default=str)
    return path


def load_known_findings():
    p = os.path.join(VERIF, "known_findings.json")
    if not os.path.exists(p):
        return []
    with open(p) as f:
        return json.load(f).get("findings", [])


class Verdict:
    """Collects violations for one property run; applies the known-findings file."""

    def __init__(self, pid):
        self.pid = pid
        self.violations = []  # (signature, description, replay payload)
        self.known_hit = []
        self.drift = []
        self.known = [k for k in load_known_findings() if k.get("property") == pid and k.get("status") == "open"]
        self._confirmations = 0
        self.unconfirmed = 0

    def _disturbed(self, run):
        """Was the recorded observation disturbed from outside?  The recorded command is run once more, alone; if it does not
        reproduce its own recorded output, nothing can be concluded from that output.  (delta inspects neighbouring processes
        to guess who called it - a concurrently running `git show`/`git grep` of another check changes how it renders its
        input - and a busy machine delays things.)  Runs whose input file is gone (stub callers) or that are driven by a
        schedule are not repeatable this way and are taken as recorded."""
        if not isinstance(run, dict) or "argv" not in run or run.get("timed_out") or "stdout_b64" not in run:
            return False
        env = run.get("env") or {}
        if any(k.startswith("STUB_") or k.startswith("DELTA_VERIF") for k in env) or self._confirmations >= 30:
            return False
        self._confirmations += 1
        try:
            with _RETRY_LOCK:
                time.sleep(0.2)
                p = subprocess.Popen(run["argv"], stdin=subprocess.PIPE, env=base_env(env), cwd=run.get("cwd") or None,
                                     stdout=subprocess.PIPE, stderr=subprocess.PIPE, start_new_session=True)
                try:
                    out, _ = p.communicate(base64.b64decode(run.get("stdin_b64", "")), timeout=180)
                except subprocess.TimeoutExpired:
                    import signal
                    try:
                        os.killpg(p.pid, signal.SIGKILL)
                    except OSError:
                        pass
                    return False
        except OSError:
            return False
        return out[:200000] != base64.b64decode(run["stdout_b64"]) or p.returncode != run.get("code")

    def violation(self, signature, what, payload):
        """signature: a stable abstract identification of the failing behaviour (string)."""
        # ("also": the other runs a relational judgement rests on - the plain twin of a coloured run, the parts of a
        # concatenation -; they are confirmed like the run itself and not kept in the replay file)
        also = payload.get("also") or []
        if also:
            payload = {k: v for k, v in payload.items() if k != "also"}
        if not payload.get("no_confirm") and (self._disturbed(payload.get("run")) or any(self._disturbed(r) for r in also[:3])):
            self.unconfirmed += 1
            log(f"UNCONFIRMED property={self.pid} (the run does not reproduce its own output when repeated alone; dropped) {what[:160]}")
            if self.unconfirmed > 20:
                raise ToolError("more than 20 observations did not reproduce when repeated alone: the machine is too busy to observe delta")
            return
        for k in self.known:
            if k.get("signature") == signature:
                if signature not in [s for s, _ in self.known_hit]:
                    self.known_hit.append((signature, k.get("what", what)))
                return
        if any(sig == signature for sig, _, _ in self.violations):
            return
        if len(self.violations) >= 25:
            self.violations.append((signature, what, self.violations[0][2]))
            return
        payload = dict(payload)
        payload.update({"property": self.pid, "signature": signature, "what": what})
        path = write_replay(self.pid, payload)
        self.violations.append((signature, what, path))

    def finish(self):
        for sig, what in self.known_hit:
            log(f"KNOWN-FINDING: property={self.pid} {what} [{sig}]")
        for d in self.drift[:10]:
            log(f"DRIFT property={self.pid} {d}")
        for sig, what, path in self.violations[:25]:
            log(f"VIOLATION property={self.pid} replay={path}")
            log(f"  what: {what}")
        if len(self.violations) > 25:
            log(f"  ... and {len(self.violations) - 25} more distinct failing cases")
        return 1 if self.violations else 0


def write_evidence(pid, tier, level, coverage, wall_s, violations, assumptions=None):
    os.makedirs(os.path.join(OUT, "evidence"), exist_ok=True)
    ev = {
        "property_id": pid,
        "tier": tier,
        "seed": seed(),
        "level": level,
        "coverage": coverage,
        "assumptions": assumptions or [],
        "wall_s": round(wall_s, 2),
        "violations": violations,
    }
    with open(os.path.join(OUT, "evidence", f"{pid}.json"), "w") as f:
        json.dump(ev, f, indent=1, default=str)
    return ev


def generic_replay(path):
    """Re-run the recorded command of a replay file against the current build. Exit 1 if delta still
    produces the recorded (rejected) output or still fails the same way, 0 if its behaviour changed
    (run the check again for a fresh verdict)."""
    with open(path) as f:
        d = json.load(f)
    log(f"replay {path}\n  property={d.get('property')} signature={d.get('signature')}\n  what: {d.get('what')}")
    r = d.get("run")
    if not isinstance(r, dict) or "argv" not in r:
        log("  (no single recorded command in this replay file: re-run the check)")
        return 0
    argv = [DELTA if i == 0 else a for i, a in enumerate(r["argv"])]
    try:
        p = subprocess.run(argv, input=base64.b64decode(r.get("stdin_b64", "")), env=base_env(r.get("env") or {}),
                           cwd=os.path.join(scratch(), "cwd"), stdout=subprocess.PIPE, stderr=subprocess.PIPE, timeout=30)
        out, code, timed_out = p.stdout, p.returncode, False
    except subprocess.TimeoutExpired as e:
        out, code, timed_out = e.stdout or b"", -999, True
    same = (out[:200000] == base64.b64decode(r.get("stdout_b64", "")) and code == r.get("code")) or (timed_out and r.get("timed_out"))
    log(f"  exit {code}, {len(out)} bytes: " + ("same behaviour as recorded" if same else "behaviour differs from the recording"))
    if same:
        log(f"VIOLATION property={d.get('property')} replay={path}")
        return 1
    return 0
