"""Projection of output rows into Trace_Term events (mechanical)."""
from . import lexer


def tokrec(t):
    if t[0] == "text":
        return {"k": "text", "p": [len(lexer.graphemes(t[1])), lexer.text_width(t[1])], "u": ""}
    if t[0] == "sgr":
        return {"k": "sgr", "p": t[1], "u": ""}
    if t[0] == "osc8":
        return {"k": "osc8", "p": [], "u": t[1]}
    if t[0] == "csiK":
        return {"k": "csiK", "p": [], "u": ""}
    return {"k": t[0], "p": [], "u": ""}


def row_events(run_id, out: bytes, maxw=0):
    rows, tail = lexer.split_rows(out)
    if tail:
        rows.append(tail)
    return [{"ev": "Row", "run": run_id, "row": i + 1, "toks": [tokrec(t) for t in lexer.tokens(b)], "maxw": maxw}
            for i, b in enumerate(rows)]
