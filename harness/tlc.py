"""Running TLC: bounded model checking, behaviour generation, trace validation."""
import json
import os
import re
import shutil
import subprocess
import tempfile
import time

from .core import VERIF, ToolError, log

SPEC = os.path.join(VERIF, "spec")
JAR = "/opt/veriftools/tla/tla2tools.jar"
CM = None


def _classpath():
    global CM
    if CM is None:
        # the `tlc` wrapper already has CommunityModules on the class path; find it once
        cands = []
        for root in ("/opt/veriftools/tla",):
            for f in os.listdir(root):
                if f.endswith(".jar"):
                    cands.append(os.path.join(root, f))
        CM = ":".join(sorted(cands, key=lambda p: (not p.endswith("tla2tools.jar"), p)))
    return CM


class TlcResult:
    def __init__(self):
        self.ok = False
        self.generated = 0
        self.distinct = 0
        self.depth = 0
        self.output = ""
        self.printed = []      # parsed JSON payloads of PrintT(<<tag, ToJson(x)>>) lines: (tag, value)
        self.error = None      # text of first "Error:" line
        self.violated = None   # name of violated invariant / property
        self.coverage = {}     # action -> (distinct, total)
        self.wall = 0.0
        self.trace = []        # counterexample states (raw text blocks)


_PRINT = re.compile(r'^<<"([A-Z_]+)", "(.*)">>$')


def run_tlc(module, cfg=None, workers=4, env=None, timeout=3600, simulate=None, depth=None,
            coverage=True, heap="4g", deadlock=False, extra=(), subdir=None, seed=None, dfs=False):
    """Run TLC on spec/<subdir>/<module>.tla. Returns TlcResult (never raises on a violation)."""
    d = os.path.join(SPEC, subdir) if subdir else SPEC
    meta = tempfile.mkdtemp(prefix="tlc-meta-")
    jopts = f"-Xss1g"
    if dfs:
        jopts += " -Dtlc2.tool.queue.IStateQueue=StateDeque"
    # (TLC leaves an empty tlc-<number> directory in java.io.tmpdir at every start: kept inside the meta directory, which is removed)
    cmd = ["java", f"-Xmx{heap}", "-Xss1g", "-XX:+UseParallelGC", f"-Djava.io.tmpdir={meta}"]
    if dfs:
        cmd.append("-Dtlc2.tool.queue.IStateQueue=StateDeque")
    cmd += ["-cp", _classpath(), "tlc2.TLC", "-workers", str(workers), "-metadir", meta, "-cleanup",
            "-noGenerateSpecTE", "-config", (cfg or module) + ".cfg"]
    if coverage and not simulate:
        cmd += ["-coverage", "1"]
    if deadlock:
        cmd += ["-deadlock"]
    if simulate:
        cmd += ["-simulate", f"num={simulate}"]
        if depth:
            cmd += ["-depth", str(depth)]
    if seed is not None:
        cmd += ["-seed", str(seed)]
    cmd += list(extra)
    cmd += [module + ".tla"]
    e = dict(os.environ)
    e.pop("JAVA_TOOL_OPTIONS", None)
    if env:
        e.update(env)
    t0 = time.time()
    try:
        p = subprocess.run(cmd, cwd=d, env=e, stdout=subprocess.PIPE, stderr=subprocess.STDOUT, text=True,
                           timeout=timeout)
        out = p.stdout
        rc = p.returncode
    except subprocess.TimeoutExpired as ex:
        out = (ex.stdout or b"")
        if isinstance(out, bytes):
            out = out.decode("utf-8", "replace")
        rc = -9
    finally:
        shutil.rmtree(meta, ignore_errors=True)
    r = TlcResult()
    r.wall = time.time() - t0
    r.output = out
    r.rc = rc
    # TLC's pretty printer breaks a long tuple after its first element (it does so for strings without
    # escapes, e.g. a JSON list of numbers):  << "TAG",\n   "...." >>   -> put it back on one line
    out_lines = []
    pending = None
    for line in out.splitlines():
        m2 = re.match(r'^<< "([A-Z_]+)",$', line)
        if m2:
            pending = m2.group(1)
            continue
        if pending is not None:
            m3 = re.match(r'^\s+"(.*)" >>$', line)
            if m3:
                line = f'<<"{pending}", "{m3.group(1)}">>'
            pending = None
        out_lines.append(line)
    for line in out_lines:
        m = _PRINT.match(line)
        if m:
            try:
                r.printed.append((m.group(1), json.loads(json.loads('"' + m.group(2) + '"'))))
            except Exception:
                r.printed.append((m.group(1), m.group(2)))
            continue
        m = re.match(r"^(\d+) states generated, (\d+) distinct states found", line)
        if m:
            r.generated, r.distinct = int(m.group(1)), int(m.group(2))
        m = re.match(r"^The depth of the complete state graph search is (\d+)", line)
        if m:
            r.depth = int(m.group(1))
        m = re.match(r"^Error: (.*)", line)
        if m and r.error is None:
            r.error = m.group(1)
            mm = re.match(r"Invariant (\S+) is violated", m.group(1))
            if mm:
                r.violated = mm.group(1)
            mm = re.match(r"Action property (\S+) is violated", m.group(1))
            if mm:
                r.violated = mm.group(1)
            if "Temporal properties were violated" in m.group(1):
                r.violated = "temporal"
        m = re.match(r"^<(\w+) line \d+, col \d+ to line \d+, col \d+ of module (\w+)>: (\d+):(\d+)", line)
        if m:
            r.coverage[m.group(1)] = (int(m.group(3)), int(m.group(4)))
    r.ok = (rc == 0 and r.error is None)
    if rc == -9:
        r.error = "timeout"
    return r


def require_ok(r, what):
    """Tool failure (exception, parse error, timeout) => ToolError; violation is returned to caller."""
    if r.ok:
        return
    if r.violated:
        return
    tail = "\n".join(r.output.splitlines()[-40:])
    raise ToolError(f"TLC failed on {what}: {r.error}\n{tail}")


def validate_trace(module, events, cfg=None, subdir=None, timeout=1800, heap="4g", keep=None):
    """Write `events` (list of dicts) as NDJSON, run the trace spec `module`, return
    (failures, TlcResult). The trace specs are deterministic monitors: they consume every event and
    print one line  <<"VERDICT", ToJson(failed)>>  at the end, where failed is a sequence of records
    [run |-> .., l |-> .., why |-> ..]. Absence of the VERDICT line is a tool error."""
    fd, path = tempfile.mkstemp(prefix="trace-", suffix=".ndjson")
    with os.fdopen(fd, "w") as f:
        for ev in events:
            f.write(json.dumps(ev, separators=(",", ":")) + "\n")
    try:
        r = run_tlc(module, cfg=cfg, workers=1, env={"TRACE": path}, timeout=timeout, coverage=False,
                    heap=heap, subdir=subdir, dfs=True)
    finally:
        if keep:
            shutil.copy(path, keep)
        os.unlink(path)
    verdicts = [v for t, v in r.printed if t == "VERDICT"]
    if not verdicts or (not r.ok):
        tail = "\n".join(r.output.splitlines()[-40:])
        raise ToolError(f"trace validation with {module} did not complete: {r.error}\n{tail}")
    failed = verdicts[-1]
    if isinstance(failed, dict):  # ToJson of a sequence may come back as list; of empty seq as []
        failed = list(failed.values())
    return failed, r
