"""Concretisation of abstract git histories (spec/Env_Git.tla) into bytes, and the mechanical row
parser for the reserved-style configuration.

Reserved styles: every element delta can paint gets its own 256-colour foreground number, so the
kind of each span of an output row can be read off its SGR.  No judgement happens here: the parser
only reports what it sees (tag of the row, visible text, tokens found, byte identity)."""
import os
import re

from . import lexer

# ---- reserved styles ------------------------------------------------------------------------------
K = {17: "minus", 18: "minusEmph", 19: "minusNon", 20: "plus", 21: "plusEmph", 22: "plusNon", 23: "zero",
     24: "file", 25: "hh", 26: "commit", 27: "hhFile", 28: "hhLine", 29: "wsErr", 30: "lnMinus", 31: "lnPlus",
     32: "lnZero", 33: "lnLeft", 34: "lnRight", 35: "grepFile", 36: "grepLine", 37: "grepMatch",
     38: "grepContext", 39: "grepSep", 40: "blameCode", 41: "blameSep", 42: "wrapSym", 43: "mergeOurs",
     44: "mergeTheirs", 45: "grepMatchLine", 46: "grepHdrFile"}
LABELS = {"added": "LBLADD", "removed": "LBLDEL", "renamed": "LBLREN", "copied": "LBLCPY", "modified": "LBLMOD"}

RS_BASE = [
    "--no-gitconfig", "--syntax-theme", "none",
    "--minus-style", "17", "--minus-emph-style", "18", "--minus-non-emph-style", "19",
    "--plus-style", "20", "--plus-emph-style", "21", "--plus-non-emph-style", "22",
    "--zero-style", "23",
    "--file-style", "24", "--file-decoration-style", "none",
    "--hunk-header-style", "25 file line-number", "--hunk-header-decoration-style", "none",
    "--hunk-header-file-style", "27", "--hunk-header-line-number-style", "28",
    "--commit-style", "26", "--commit-decoration-style", "none",
    "--whitespace-error-style", "29",
    "--line-numbers-minus-style", "30", "--line-numbers-plus-style", "31", "--line-numbers-zero-style", "32",
    "--line-numbers-left-style", "33", "--line-numbers-right-style", "34",
    "--file-added-label", LABELS["added"], "--file-removed-label", LABELS["removed"],
    "--file-renamed-label", LABELS["renamed"], "--file-copied-label", LABELS["copied"],
    "--file-modified-label", LABELS["modified"],
    "--merge-conflict-ours-diff-header-style", "43", "--merge-conflict-ours-diff-header-decoration-style", "none",
    "--merge-conflict-theirs-diff-header-style", "44", "--merge-conflict-theirs-diff-header-decoration-style", "none",
    "--inline-hint-style", "42",
]

RS_ARGS = RS_BASE + ["--width", "200"]


def rs_args(width):
    return RS_BASE + ["--width", str(width)]


FILES = {1: "alphaZ1Z.rs", 2: "betaZ2Z.rs", 3: "gammaZ3Z.rs"}
_FILE_RE = re.compile(r"(?:alpha|beta|gamma)Z([123])Z\.rs")
_FRAG_RE = re.compile(r"fragZ(\d+)Z")
_LAB_RE = re.compile(r"LBL(ADD|DEL|REN|CPY|MOD)")
_LAB_NAME = {"ADD": "added", "DEL": "removed", "REN": "renamed", "CPY": "copied", "MOD": "modified"}

CODE_KINDS = {"minus", "minusEmph", "minusNon", "plus", "plusEmph", "plusNon", "zero", "wsErr"}
LN_KINDS = {"lnMinus", "lnPlus", "lnZero", "lnLeft", "lnRight"}


class Interner:
    """Byte strings -> small integers (byte-equality primitive handed to TLC)."""

    def __init__(self):
        self.ids = {b"": 0}

    def __call__(self, b):
        return self.ids.setdefault(bytes(b), len(self.ids))


def cps(s):
    return [ord(c) for c in s]


# ---- concretisation -------------------------------------------------------------------------------

def default_payload(k, c):
    return f"tokZ{k}Z w{k % 3}"


def bare_path(fid, skin):
    """The path as git prints it after the a/ b/ prefix (inside quotes when quoted)."""
    name = skin.get("names", FILES)[fid]
    if skin.get("quote"):
        name = "caf\\303\\251" + name
    if skin.get("dir"):
        name = skin["dir"] + "/" + name
    return name


def path(fid, side, skin, marker_line=False):
    if fid == 0:
        return "/dev/null"
    name = bare_path(fid, skin)
    pre = skin.get("prefixes", ("a/", "b/"))
    full = (pre[0] if side == "a" else pre[1]) + name
    if skin.get("quote"):
        # (a quoted name that contains a space as well: the TAB follows the closing quote)
        return '"' + full + '"' + ("\t" if marker_line and " " in full else "")
    if marker_line and " " in full:
        return full + "\t"      # git appends a TAB on ---/+++ lines when the path contains a space
    return full


def plain_path(fid, skin):
    """rename/copy lines carry the path without prefix (quoted when git quotes)."""
    name = bare_path(fid, skin)
    return '"' + name + '"' if skin.get("quote") else name


def display_path(fid, skin):
    """What a faithful header shows for file id: git's path without prefix and surrounding quotes."""
    return bare_path(fid, skin)


def concretise(hist, payload=default_payload, skin=None, k0=0):
    """hist: list of dicts {c,f,g,kd}. Returns (bytes, [text of each line (str, no newline)])."""
    skin = skin or {}
    out = []
    # hunk geometry: start positions and counts are derived from the bodies
    n = len(hist)
    koff = k0
    kd = ""
    diffu = bool(hist) and (hist[0]["c"] in ("du", "onlyin") or hist[0].get("kd") in ("dufile", "dubin"))
    stamp = "\t2024-01-01 00:00:00.000000000 +0000"
    for k0, l in enumerate(hist):
        k = k0 + 1 + koff
        c, f, g = l["c"], l["f"], l["g"]
        if c == "diff":
            kd = l.get("kd", "")
        comb = kd == "cc"
        if c == "commit":
            t = "commit " + ("%040x" % (0x1234567890abcdef1234567890abcdef12345678 + k))
        elif c == "other":
            t = payload(k, c) if skin.get("other_payload") else f"note tokZ{k}Z"
            if isinstance(t, bytes):
                t = t.decode("latin-1")  # raw bytes travel as latin-1 and are re-encoded below
        elif c == "blank":
            t = ""
        elif c == "stat":
            t = f" {bare_path(f, skin)}{' ' * (1 + k % 3)}| {3 + k % 7} ++{'-' * (k % 4)}"
        elif c == "sublog":
            t = f"Submodule {bare_path(f, skin)} 1234567..89abcde:"
        elif c == "subc":
            t = f"  > commit subject tokZ{k}Z"
        elif c in ("subm", "subp"):
            # (a repository that uses SHA-256 has 64-digit hashes)
            hx = ("%064x" % (0xabcdef0123456789abcdef * (k + 7) ** 3))[:64] if skin.get("subhash64") else ("%040x" % (0xabcdef0123456789 * (k + 7)))[:40]
            t = ("-" if c == "subm" else "+") + "Subproject commit " + hx
        elif c == "onlyin":
            # diff -r: a file present on one side only ("Only in <directory>: <name>")
            bp = bare_path(f, skin)
            t = f"Only in {'old/' + os.path.dirname(bp) if os.path.dirname(bp) else 'old'}: {os.path.basename(bp)}"
        elif c == "du":
            t = f"diff -ru old/{bare_path(f, skin)} new/{bare_path(g, skin)}"
        elif c == "mmm" and diffu:
            t = f"--- old/{bare_path(f, skin)}{stamp}"
        elif c == "ppp" and diffu:
            t = f"+++ new/{bare_path(f, skin)}{stamp}"
        elif c == "minus3":
            t = "--- " + payload(k, c)
        elif c == "plus3":
            t = "+++ " + payload(k, c)
        elif c == "diff" and comb:
            t = "diff --cc " + plain_path(f, skin)
        elif c == "diff":
            t = f"diff --git {path(f, 'a', skin)} {path(g, 'b', skin)}"
        elif c == "index" and comb:
            t = "index 1111111,2222222..3333333"
        elif c == "index":
            t = "index 1111111..2222222 100644"
        elif c == "newfile":
            t = "new file mode 100644"
        elif c == "delfile":
            t = "deleted file mode 100644"
        elif c == "simil":
            t = "similarity index 90%"
        elif c == "renfrom":
            t = "rename from " + plain_path(f, skin)
        elif c == "rento":
            t = "rename to " + plain_path(f, skin)
        elif c == "copyfrom":
            t = "copy from " + plain_path(f, skin)
        elif c == "copyto":
            t = "copy to " + plain_path(f, skin)
        elif c == "oldmode":
            t = "old mode 100644"
        elif c == "newmode":
            t = "new mode 100755"
        elif c == "binary" and diffu:
            t = f"Binary files old/{bare_path(f, skin)} and new/{bare_path(g, skin)} differ"
        elif c == "binary":
            t = f"Binary files {path(f, 'a', skin)} and {path(g, 'b', skin)} differ"
        elif c == "mmm":
            t = "--- " + path(f, "a", skin, True)
        elif c == "ppp":
            t = "+++ " + path(f, "b", skin, True)
        elif c == "hh":
            # count body lines of this hunk
            nm = np_ = 0
            j = k0 + 1
            while j < n and hist[j]["c"] in ("minus", "plus", "zero", "nonl", "cin", "m_ours", "m_anc", "m_theirs", "m_end",
                                           "minus3", "plus3") and not hist[j].get("kd"):
                cc = hist[j]["c"]
                nm += cc in ("minus", "zero", "minus3")
                np_ += cc in ("plus", "zero", "plus3")
                j += 1
            if diffu:
                nm = g          # the old-side length the environment announced
            start = skin.get("start", 10) + 100 * k
            fr = skin.get("frag", "std")
            frag = {"std": f" fragZ{k}Z", "none": "", "numbers": f" fragZ{k}Z = -1; x +5,2 @@ y", "space": " ",
                    # longer than a lowered --max-line-length, its token at the very end
                    "long": " static int a_long_function_name(" + "struct item *p, " * 7 + f"int n) fragZ{k}Z"}[fr]
            if comb:
                t = f"@@@ -{start},{nm} -{start + 1},{nm} +{start + 3},{np_} @@@{frag}"
            else:
                t = f"@@ -{start},{nm} +{start + 3},{np_} @@{frag}"
        elif c == "minus":
            t = (["- ", " -", "--"][k % 3] if comb else "-") + payload(k, c)
        elif c == "plus":
            t = (["+ ", " +", "++"][k % 3] if comb else "+") + payload(k, c)
        elif c == "zero":
            t = ("  " if comb else " ") + payload(k, c)
        elif c == "cin":
            t = ["+ ", " +", "++"][k % 3] + payload(k, c)
        elif c == "m_ours":
            t = "++<<<<<<< HEAD"
        elif c == "m_anc":
            t = "++||||||| baseZ1"
        elif c == "m_theirs":
            t = "++======="
        elif c == "m_end":
            t = "++>>>>>>> branchZ2"
        elif c == "nonl":
            t = "\\ No newline at end of file"
        else:
            raise ValueError(c)
        out.append(t)
    if skin.get("bytes"):
        data = b"".join(t.encode("latin-1") + b"\n" for t in out)
    else:
        # (a lone surrogate in a payload stands for a byte that is not valid UTF-8)
        data = "".join(t + "\n" for t in out).encode("utf-8", "surrogateescape")
    return data, out


def concretise_texts(hist, payload=default_payload, skin=None):
    return concretise(hist, payload=payload, skin=skin)[1]


def line_events(hist, texts, intern, tabs=8, git_prefix=None):
    """Per-line records for the trace (mechanical: split marker / payload, intern bytes)."""
    evs = []
    kd = ""
    prev = ""
    for l, t in zip(hist, texts):
        c = l["c"]
        lone_subp = c == "subp" and prev != "subm"      # an added submodule: an ordinary added line
        prev = c
        if c == "diff":
            kd = l.get("kd", "")
        comb = kd == "cc"
        if c in ("minus", "plus", "zero", "cin") and comb:
            pre, pay = t[:2], t[2:]
        elif c in ("minus", "plus", "zero", "minus3", "plus3"):
            pre, pay = t[:1], t[1:]
        elif lone_subp:
            pre, pay = t[:1], t[1:]
        elif c in ("subm", "subp"):
            pre, pay = t[:1], t[len("-Subproject commit "):]
        elif c == "commit":
            pre, pay = "", t
        else:
            pre, pay = "", t
        b = t.encode()
        if c == "nonl" or c == "blank" or c == "other":
            pass
        rp, sfx = "", ""
        if c == "stat":
            # mechanical: the path as seen from the directory git was run in (GIT_PREFIX), and the line from the bar on
            path_, _, rest = t[1:].partition("|")
            rp = os.path.relpath(path_.rstrip(" "), (git_prefix or ".").rstrip("/") or ".")
            sfx = "|" + rest
        evs.append({"c": c, "f": l["f"], "g": l["g"], "kd": l.get("kd", ""), "pre": cps(pre), "pay": cps(pay),
                    "bid": intern(b), "comb": comb, "rp": cps(rp), "sfx": cps(sfx)})
    return evs


# ---- row parser -----------------------------------------------------------------------------------

_BOX = set("─━│┃┌┐└┘├┤┬┴┼╌═║ ▼▲")


def span_kind(fg, bg, attrs=frozenset()):
    if len(fg) == 1 and fg[0] in K:
        return K[fg[0]]
    if fg == () and bg == () and not attrs:
        return "plain"
    return "styled"


def parse_row(row: bytes, intern, skin=None):
    """Mechanical description of one output row under the reserved-style configuration."""
    toks = lexer.tokens(row)
    cs, pen = lexer.cells(toks)
    sp = lexer.spans(cs)
    kinds = [span_kind(s[1], s[2], s[3]) for s in sp]
    text = "".join(s[0] for s in sp)
    code = "".join(s[0] for s, kd in zip(sp, kinds) if kd not in LN_KINDS)
    kset = set(kinds)
    has_sgr = any(t[0] in ("sgr", "osc8", "csiK") for t in toks)
    nm = np_ = None
    for s, kd in zip(sp, kinds):
        m = re.search(r"\d+", s[0])
        if kd == "lnMinus" and m:
            nm = int(m.group())
        if kd == "lnPlus" and m:
            np_ = int(m.group())
        if kd == "lnZero" and m:
            # zero lines paint both numbers with the zero style: first = old, second = new
            if nm is None:
                nm = int(m.group())
            else:
                np_ = int(m.group())
    if kinds == ["minus", "plain", "plus"] and sp[1][0] == ".." and len(sp[0][0]) <= 12 and len(sp[2][0]) <= 12:
        tag = "subshort"   # `<old commit>..<new commit>` of a submodule (handle_submodule_short_line)
    elif kset & {"minus", "minusEmph", "minusNon"}:
        tag = "minus"
    elif kset & {"plus", "plusEmph", "plusNon"}:
        tag = "plus"
    elif "wsErr" in kset:
        tag = "plus"
    elif "zero" in kset:
        tag = "zero"
    elif "file" in kset:
        tag = "fileHdr"
    elif kset & {"hh", "hhFile", "hhLine"}:
        tag = "hunkHdr"
    elif "commit" in kset:
        tag = "commit"
    elif kset & {"mergeOurs", "mergeTheirs"}:
        tag = "mergeHdr"
    elif kset & LN_KINDS:
        # gutter only: the code part is empty
        if "lnZero" in kset and nm is not None and np_ is not None:
            tag = "zero"
        elif nm is not None and np_ is None:
            tag = "minus"
        elif np_ is not None and nm is None:
            tag = "plus"
        else:
            tag = "gutter"
    elif text == "":
        tag = "blank"
    elif all(ch in _BOX for ch in text):
        tag = "deco"
    elif not has_sgr:
        tag = "raw"
    else:
        tag = "styled"
    if skin and skin.get("names"):
        # file ids whose (base) name occurs in the row, in order of appearance
        occ = sorted((text.find(nm), fid) for fid, nm in skin["names"].items() if nm in text)
        fs = [fid for pos, fid in occ]
    else:
        fs = [int(m) for m in _FILE_RE.findall(text)]
    # ids whose full display path (per the skin) occurs in the row, in order of appearance
    fp = []
    if skin is not None:
        hits = []
        for fid in FILES:
            dp = display_path(fid, skin)
            pos = text.find(dp)
            while pos >= 0:
                hits.append((pos, fid))
                pos = text.find(dp, pos + 1)
        fp = [fid for pos, fid in sorted(hits)]
    else:
        fp = list(fs)
    lab = _LAB_RE.search(text)
    frag = _FRAG_RE.search(text)
    emph = [1 if kd in ("minusEmph", "plusEmph") else 0 for s, kd in zip(sp, kinds) if kd not in LN_KINDS
            for _ in lexer.graphemes(s[0])]
    return {
        "t": tag,
        "vis": cps(code),
        "bid": intern(row),
        "fs": fs,
        "fp": fp,
        "lab": _LAB_NAME[lab.group(1)] if lab else "",
        "mode": "mode" in text and tag == "fileHdr",
        "bin": "binary" in text and tag == "fileHdr",
        "frag": int(frag.group(1)) if frag else 0,
        "nm": nm if nm is not None else 0,
        "np": np_ if np_ is not None else 0,
        "closed": pen.is_default(),
        "_text": text,
        "_emph": emph,
        "_kinds": kinds,
        "_spans": [x[0] for x in sp],
    }


def public(row):
    return {k: v for k, v in row.items() if not k.startswith("_")}


# ---- git's own colouring (color.ui=always) ----------------------------------------------------------

def colourise(hist, texts, variant=0):
    """Colour concrete lines the way git does with its default palette. Variants differ in reset form
    (ESC[m / ESC[0m), in per-marker vs per-line colouring, and in whitespace-error highlighting."""
    R = "\x1b[m" if variant % 2 == 0 or variant == 7 else "\x1b[0m"
    wsall = variant == 7      # git diff --ws-error-highlight=all: every hunk line is written marker first, then its text as one
    out = []                  # coloured piece (for context lines: a reset, the text, a reset), then the whitespace error
    for l, t in zip(hist, texts):
        c = l["c"]
        if c == "commit":
            out.append("\x1b[33m" + t + R)
        elif c in ("diff", "index", "newfile", "delfile", "simil", "renfrom", "rento", "copyfrom", "copyto", "oldmode",
                   "newmode", "mmm", "ppp"):
            out.append("\x1b[1m" + t + R)
        elif c == "hh":
            i = t.index(" @@") + 3
            out.append("\x1b[36m" + t[:i] + R + t[i:])
        elif wsall and c in ("minus", "zero"):
            body = t[1:]
            stripped = body.rstrip(" \t\r")
            ws = body[len(stripped):]
            col = "\x1b[31m" if c == "minus" else ""
            out.append((col + t[0] + R if col else t[0]) + (col or R) + stripped + R + ("\x1b[41m" + ws + R if ws else ""))
        elif c == "minus":
            if variant // 2 % 2 == 0:
                out.append("\x1b[31m" + t + R)
            else:
                out.append("\x1b[31m-" + R + "\x1b[31m" + t[1:] + R)
        elif c == "plus":
            body = t[1:]
            stripped = body.rstrip(" \t\r")       # (the CR of a CRLF file is a whitespace error for git)
            ws = body[len(stripped):]
            if variant // 2 % 2 == 0:
                s = "\x1b[32m+" + stripped + R if not ws else "\x1b[32m+" + stripped + R + "\x1b[41m" + ws + R
            else:
                s = "\x1b[32m+" + R + "\x1b[32m" + stripped + R + ("\x1b[41m" + ws + R if ws else "")
            out.append(s)
        elif c == "nonl":
            out.append("\x1b[31m" + t + R) if variant % 3 == 0 else out.append(t)
        else:
            out.append(t)
    return out


# ---- rows with line-number gutters / side-by-side panels (C05, C07) ---------------------------------

_TOK_RE = re.compile(r"tokZ(\d+)Z")


def kinded_cells(row: bytes):
    """[(grapheme, kind, width, column)] for one row under the reserved styles."""
    cs, pen = lexer.cells(lexer.tokens(row))
    out = []
    col = 0
    for g, fg, bg, at, lk in cs:
        w = lexer.gwidth(g)
        out.append((g, span_kind(fg, bg, at), w, col))
        col += w
    return out, col


def _num(cells, kinds):
    s = "".join(g for g, kd, w, c in cells if kd in kinds)
    m = re.search(r"\d+", s)
    return int(m.group()) if m else 0


def _tok(cells):
    s = "".join(g for g, kd, w, c in cells if kd not in LN_KINDS)
    m = _TOK_RE.search(s)
    return int(m.group(1)) if m else 0


def parse_unified_numbers(row: bytes):
    cells, width = kinded_cells(row)
    kinds = {kd for g, kd, w, c in cells}
    if not kinds & LN_KINDS:
        return None
    # zero lines paint both numbers with the zero style: first field = old, second = new
    zs = re.findall(r"\d+", "".join(g if kd == "lnZero" else " " for g, kd, w, c in cells))
    nm = _num(cells, {"lnMinus"})
    np_ = _num(cells, {"lnPlus"})
    if zs:
        if len(zs) >= 2:
            nm, np_ = int(zs[0]), int(zs[1])
        else:
            nm = int(zs[0])
    return {"k": _tok(cells), "nm": nm, "np": np_}


DEFAULT_SYMS = {"left": "↵", "right": "↴", "prefix": "…", "trunc": "→"}


def cross_numbers(row: bytes, half: int):
    """Side-by-side row under the number formats '{nm}:{np}|' in both panels: (left old, left new, right old, right new),
    0 = blank.  The right panel begins at column `half`."""
    cells, width = kinded_cells(row)
    out = []
    for part in ([c for c in cells if c[3] < half], [c for c in cells if c[3] >= half]):
        g = "".join(x[0] for x in part if x[1] in LN_KINDS)
        m = re.match(r"^\s*(\d*)\s*:\s*(\d*)\s*\|", g)
        out += [int(m.group(1) or 0), int(m.group(2) or 0)] if m else [-1, -1]
    return tuple(out)


def parse_sbs_row(row: bytes, syms=None):
    """Side-by-side row with line numbers on: split at the first right-gutter cell."""
    cells, width = kinded_cells(row)
    split = next((i for i, c in enumerate(cells) if c[1] == "lnRight"), None)
    if split is None:
        return None
    left, right = cells[:split], cells[split:]

    def text(cs):
        return "".join(g for g, kd, w, c in cs if kd not in LN_KINDS)

    def panel(cs):
        """code text of a panel without padding and wrap machinery: (text, wrapped?, truncated?)"""
        t = "".join(g for g, kd, w, c in cs if kd not in LN_KINDS and kd != "plain")
        sy = syms or DEFAULT_SYMS
        m = re.match(r"^ *" + re.escape(sy["prefix"]), t)
        ralign = bool(m)
        if m:
            t = t[m.end():]
        wrapped = truncated = False
        if t.endswith(sy["left"]) or t.endswith(sy["right"]):
            wrapped, t = True, t[:-1]
        elif t.endswith(sy["trunc"]):
            truncated, t = True, t[:-1]
        return t, wrapped, truncated, ralign
    lp, rp = panel(left), panel(right)

    def kset(cs):
        return sorted({kd for g, kd, w, c in cs if kd not in LN_KINDS and kd != "plain"})
    return {
        "kl": _tok(left), "nm": _num(left, {"lnMinus", "lnZero"}),
        "kr": _tok(right), "np": _num(right, {"lnPlus", "lnZero"}),
        "col": right[0][3], "width": width,
        "lt": text(left), "rt": text(right), "lk": kset(left), "rk": kset(right),
        "lw": sum(w for g, kd, w, c in left), "rw": sum(w for g, kd, w, c in right),
        "lp": lp, "rp": rp,
    }
