"""Mechanical lexer for terminal output: rows -> tokens -> cells.

Token kinds:  ("text", str) ("sgr", [ints]) ("osc8", url) ("csiK",) ("other", raw) ("bad", raw)
A "bad" token is an escape sequence that is cut off by the end of the row (or malformed).

The SGR *semantics* used by the property specs is the TLA+ module Term; `cells()` below is the same
fold, used only to hand per-character renditions (as integer tuples) to TLC and to tag rows.
"""
import re
import unicodedata

ESC = "\x1b"
_CSI = re.compile(r"\x1b\[([0-9;:<=>?]*)([ -/]*)([@-~])")
_OSC = re.compile(r"\x1b\]([^\x07\x1b]*)(\x07|\x1b\\)")


def split_rows(out: bytes):
    """Split stdout into rows (without the newline). Last element is the unterminated tail."""
    parts = out.split(b"\n")
    return parts[:-1], parts[-1]


def tokens(row: bytes):
    s = row.decode("utf-8", "replace")
    toks = []
    i, n = 0, len(s)
    buf = []

    def flush():
        if buf:
            toks.append(("text", "".join(buf)))
            buf.clear()

    while i < n:
        c = s[i]
        if c != ESC:
            buf.append(c)
            i += 1
            continue
        flush()
        m = _CSI.match(s, i)
        if m:
            params, inter, final = m.groups()
            if final == "m" and not inter:
                ps = []
                ok = True
                for p in re.split("[;:]", params) if params else ["0"]:
                    if p == "":
                        ps.append(0)
                    elif p.isdigit():
                        ps.append(int(p))
                    else:
                        ok = False
                toks.append(("sgr", ps) if ok else ("other", m.group(0)))
            elif final == "K" and not inter:
                toks.append(("csiK",))
            else:
                toks.append(("other", m.group(0)))
            i = m.end()
            continue
        m = _OSC.match(s, i)
        if m:
            body = m.group(1)
            if body.startswith("8;"):
                rest = body[2:]
                url = rest.split(";", 1)[1] if ";" in rest else ""
                toks.append(("osc8", url))
            else:
                toks.append(("other", m.group(0)))
            i = m.end()
            continue
        # escape that does not complete inside this row
        toks.append(("bad", s[i:]))
        i = n
    flush()
    return toks


# --- graphemes and widths (independent width model) ------------------------------------------

def char_width(ch):
    o = ord(ch)
    if o == 0:
        return 0
    if o < 32 or 0x7F <= o < 0xA0:
        return 0
    cat = unicodedata.category(ch)
    if cat in ("Mn", "Me", "Cf"):
        return 0
    if unicodedata.east_asian_width(ch) in ("W", "F"):
        return 2
    return 1


def graphemes(s):
    """Approximate extended grapheme clusters: base + following zero-width marks (restricted to the
    characters the skins use: combining marks, ZWJ sequences are not used)."""
    out = []
    for ch in s:
        if out and unicodedata.category(ch) in ("Mn", "Me") :
            out[-1] += ch
        else:
            out.append(ch)
    return out


def gwidth(g):
    return max((char_width(c) for c in g), default=0) if len(g) > 1 else char_width(g)


def text_width(s):
    return sum(gwidth(g) for g in graphemes(s))


# --- SGR fold (mirror of spec/Term.tla) --------------------------------------------------------

DEFAULT = ()


class Pen:
    __slots__ = ("fg", "bg", "attrs", "link")

    def __init__(self):
        self.fg = DEFAULT
        self.bg = DEFAULT
        self.attrs = frozenset()
        self.link = ""

    def key(self):
        return (self.fg, self.bg, self.attrs, self.link)

    def is_default(self):
        return self.fg == DEFAULT and self.bg == DEFAULT and not self.attrs and self.link == ""


_ATTR_ON = {1: "bold", 2: "dim", 3: "italic", 4: "ul", 5: "blink", 6: "blink", 7: "reverse", 8: "hidden", 9: "strike"}
_ATTR_OFF = {21: {"bold"}, 22: {"bold", "dim"}, 23: {"italic"}, 24: {"ul"}, 25: {"blink"}, 27: {"reverse"},
             28: {"hidden"}, 29: {"strike"}}


def apply_sgr(pen, ps):
    i = 0
    while i < len(ps):
        p = ps[i]
        if p == 0:
            pen.fg, pen.bg, pen.attrs = DEFAULT, DEFAULT, frozenset()
        elif p in _ATTR_ON:
            pen.attrs = pen.attrs | {_ATTR_ON[p]}
        elif p in _ATTR_OFF:
            pen.attrs = pen.attrs - _ATTR_OFF[p]
        elif 30 <= p <= 37:
            pen.fg = (p - 30,)
        elif 90 <= p <= 97:
            pen.fg = (p - 90 + 8,)
        elif 40 <= p <= 47:
            pen.bg = (p - 40,)
        elif 100 <= p <= 107:
            pen.bg = (p - 100 + 8,)
        elif p == 39:
            pen.fg = DEFAULT
        elif p == 49:
            pen.bg = DEFAULT
        elif p in (38, 48):
            if i + 2 < len(ps) + 0 and i + 1 < len(ps) and ps[i + 1] == 5 and i + 2 < len(ps):
                col = (ps[i + 2],)
                i += 2
            elif i + 1 < len(ps) and ps[i + 1] == 2 and i + 4 < len(ps):
                col = (ps[i + 2], ps[i + 3], ps[i + 4])
                i += 4
            else:
                col = None
                i = len(ps)
            if col is not None:
                if p == 38:
                    pen.fg = col
                else:
                    pen.bg = col
        i += 1


def cells(toks, pen=None):
    """Fold tokens into a list of (grapheme, fg, bg, attrs(frozenset), link) and the final pen."""
    pen = pen or Pen()
    out = []
    for t in toks:
        k = t[0]
        if k == "text":
            for g in graphemes(t[1]):
                out.append((g, pen.fg, pen.bg, pen.attrs, pen.link))
        elif k == "sgr":
            apply_sgr(pen, t[1])
        elif k == "osc8":
            pen.link = t[1]
    return out, pen


def spans(cs):
    """Group cells into maximal runs of equal rendition: [(text, fg, bg, attrs, link)]."""
    out = []
    for g, fg, bg, at, lk in cs:
        if out and out[-1][1:] == (fg, bg, at, lk):
            out[-1] = (out[-1][0] + g, fg, bg, at, lk)
        else:
            out.append((g, fg, bg, at, lk))
    return out


def visible(row: bytes):
    return "".join(t[1] for t in tokens(row) if t[0] == "text")


def strip_osc8(out: bytes) -> bytes:
    return re.sub(rb"\x1b\]8;[^\x07\x1b]*(\x07|\x1b\\)", b"", out)


def strip_ansi(b: bytes) -> bytes:
    b = re.sub(rb"\x1b\][^\x07\x1b]*(\x07|\x1b\\)", b"", b)
    return re.sub(rb"\x1b\[[0-9;:<=>?]*[ -/]*[@-~]", b"", b)
