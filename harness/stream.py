"""Shared driver for the stream properties (C01 C04 C10 C11 C14 ...): design-level TLC run on
MC_Stream, replay of the enumerated histories into the real binary, trace validation by TLC."""
import json
import random
import time

from . import core, gitskin, lexer, tlc
from .core import log


def design_check(cfg, workers=8, timeout=3000):
    """Run MC_Stream under `cfg`. Returns (TlcResult, histories[list of list of line dicts])."""
    r = tlc.run_tlc("MC_Stream", cfg=cfg, workers=workers, timeout=timeout, coverage=False, heap="8g")
    hists = [v for t, v in r.printed if t == "REPLAY"]
    return r, hists


def simulate_histories(cfg, num, depth, seed):
    r = tlc.run_tlc("MC_Stream", cfg=cfg, workers=1, simulate=num, depth=depth, seed=seed, coverage=False,
                    timeout=600)
    tlc.require_ok(r, "MC_Stream simulate")
    hists = [v for t, v in r.printed if t == "REPLAY"]
    return r, hists


_STUB_SEQ = __import__("itertools").count()


def rs_args_with(args):
    """The reserved-style configuration with the given options; an option of the reserved set that is given again
    replaces the reserved value (delta rejects an option given twice)."""
    base = list(gitskin.RS_ARGS)
    given = {a for a in args if a.startswith("--")}
    out, i = [], 0
    while i < len(base):
        if base[i] in given and i + 1 < len(base) and not base[i + 1].startswith("--"):
            i += 2
            continue
        out.append(base[i])
        i += 1
    return out + list(args)


def run_history(hist, args, payload=gitskin.default_payload, skin=None, env=None, cmd=None):
    data, texts = gitskin.concretise(hist, payload=payload, skin=skin)
    if cmd:
        # delta started as `delta <options> git diff --word-diff`: it runs the (stub) git itself, which prints the input;
        # the command line of that git is what delta takes the mode from
        import os
        binpath = os.path.join(core.FIXBIN, "bin")
        if not os.path.exists(os.path.join(binpath, cmd[0])):
            raise core.ToolError(f"stub {cmd[0]} missing: run ./setup.sh")
        d = os.path.join(core.scratch(), "stubin")
        os.makedirs(d, exist_ok=True)
        f = os.path.join(d, f"in{os.getpid()}_{next(_STUB_SEQ)}.txt")
        with open(f, "wb") as fh:
            fh.write(data)
        e2 = dict(env or {})
        e2.update({"PATH": binpath + ":/usr/bin:/bin", "STUB_OUT": f})
        r = core.run_delta(rs_args_with(args) + list(cmd), b"", env=e2)
        os.unlink(f)
        return data, texts, r
    r = core.run_delta(rs_args_with(args), data, env=env)
    return data, texts, r


def normalise_line(b: bytes) -> bytes:
    """The changes C04 permits on a passed-through line: CR removal (a trailing CR, possibly followed
    only by escape sequences) and replacement of invalid UTF-8."""
    i = b.rfind(b"\r")
    if i >= 0 and lexer.strip_ansi(b[i + 1:]) == b"":
        b = b[:i] + b[i + 1:]
    try:
        b.decode("utf-8")
    except UnicodeDecodeError:
        b = b.decode("utf-8", "replace").encode()
    return b


def run_event(run_id, hist, texts, r, cfg, intern=None, skin=None, data=None):
    """Mechanical projection of one run into a Trace_Stream event."""
    intern = intern or gitskin.Interner()
    lines = gitskin.line_events(hist, texts, intern, git_prefix=(skin or {}).get("git_prefix"))
    if data is not None:
        raw = data.split(b"\n")[:-1]
        for ln, b in zip(lines, raw):
            ln["bid"] = intern(normalise_line(b))
    rows_b, tail = lexer.split_rows(r.out)
    rows = [gitskin.parse_row(b, intern, skin) for b in rows_b]
    if tail:
        rows.append(gitskin.parse_row(tail, intern, skin))
    return {
        "run": run_id, "cfg": cfg, "lines": lines, "rows": [gitskin.public(x) for x in rows],
        "code": r.code if not r.timed_out else 999,
        "stderr": 1 if r.err.strip() else 0,
    }, rows


def shape(hist):
    """Abstract signature of a history (used to identify known findings): classes + kinds."""
    return " ".join((l["c"] + (":" + l["kd"] if l.get("kd") else "")) for l in hist)


def validate_runs(events, shards=4):
    """Validate events with Trace_Stream, sharded over a few TLC processes. Returns failures."""
    if not events:
        return [], 0
    # the monitor handles a few thousand runs a minute: shard so that no TLC process gets more than ~25 000
    n = max(1, min(shards, len(events) // 500 + 1), min(14, len(events) // 25000 + 1))
    chunks = [events[i::n] for i in range(n)]
    tmo = max(1800, len(chunks[0]) // 20)
    res = core.pmap(lambda ch: tlc.validate_trace("Trace_Stream", ch, heap="3g", timeout=tmo), chunks, jobs=n)
    failed = []
    drift = []
    for f, r in res:
        failed.extend(f)
        for t, v in r.printed:
            if t == "DRIFT":
                drift.extend(v if isinstance(v, list) else list(v.values()))
    validate_runs.last_drift = drift
    return failed, len(events)


# ---------------------------------------------------------------------------------------------------
# generic check runner for the stream properties

RELEVANT = {
    "C01": {"minus", "plus", "zero", "raw", "subshort"},
    "C04": {"raw", "rawopt", "commit", "styled"},
    "C14": {"fileHdr", "hunkHdr", "mergeHdr"},
}


def relevant(pid, f):
    if f["why"] != "rows":
        return True
    kinds = RELEVANT.get(pid)
    if kinds is None:
        return True
    return f["wt"] in kinds or f["gt"] in kinds


class Plan:
    """One batch of runs: histories x one configuration."""

    def __init__(self, name, hists, args=(), cfg=None, payload=gitskin.default_payload, skin=None, env=None, cmd=None):
        self.name, self.hists, self.args, self.payload, self.skin, self.env = name, hists, list(args), payload, skin, env
        self.cmd = cmd
        self.cfg = {"keep": False, "tabs": 8, "colorOnly": False, "buf": 32, "hhFile": True, "rel": False, "wd": False, "commitRaw": False}
        if cfg:
            self.cfg.update(cfg)


def execute_plans(plans):
    """Run every (history, config); return list of (plan, hist, data, run, event, rows)."""
    jobs = []
    for p in plans:
        for h in p.hists:
            jobs.append((p, h))
    return execute_jobs(jobs)


def execute_jobs(jobs):

    def one(ij):
        i, (p, h) = ij
        data, texts, r = run_history(h, p.args, payload=p.payload, skin=p.skin, env=p.env, cmd=p.cmd)
        ev, rows = run_event(i, h, texts, r, p.cfg, skin=p.skin or {}, data=data)
        return (p, h, data, r, ev, rows)

    # runs that start a stub `git ...` themselves are kept apart in time from runs that read stdin: delta guesses its caller
    # from neighbouring processes, and a stub of another run nearby would be taken for it
    idx = list(enumerate(jobs))
    plain = [x for x in idx if not x[1][0].cmd]
    stubbed = [x for x in idx if x[1][0].cmd]
    out = dict(zip([i for i, _ in plain], core.pmap(one, plain)))
    out.update(zip([i for i, _ in stubbed], core.pmap(one, stubbed)))
    return [out[i] for i in range(len(jobs))]


def execute_and_validate(plans, chunk=20000):
    """execute_plans + validate_runs in chunks, so that memory stays bounded however many runs the plans hold: of a run that
    the monitor accepts only (plan, history, input bytes) are kept.  Returns (failed, n, results, drift): failed as from
    validate_runs (run = index into results, whose entries are complete for the failed runs), drift as from drift_report."""
    jobs = [(p, h) for p in plans for h in p.hists]
    results, failed, drift, n = [], [], [], 0
    for start in range(0, len(jobs), chunk):
        part = jobs[start:start + chunk]
        res = execute_jobs(part)
        f_part, n_part = validate_runs([x[4] for x in res])
        n += n_part
        bad = {f["run"] for f in f_part}
        if len(drift) < 10:
            drift += drift_report(res)[:10 - len(drift)]
        for i, x in enumerate(res):
            results.append(x if i in bad else (x[0], x[1], x[2], None, None, None))
        for f in f_part:
            failed.append(dict(f, run=f["run"] + start))
    return failed, n, results, drift


def drift_report(results):
    """Runs on which the implementation-shaped model predicted other rows than the binary showed
    (computed by TLC in Trace_Stream; a report, never a verdict)."""
    out = []
    for run in getattr(validate_runs, "last_drift", []):
        p, h, data, r, ev, rows = results[run]
        out.append(f"module=Impl_Stream cfg={p.name} history=[{shape(h)[:160]}] observed={[x['t'] for x in rows][:30]}")
    return out


# ---------------------------------------------------------------------------------------------------
# transition cover (spec/Cover_Stream.tla)

def cover_histories(pairs=False, cfg="Cover_Stream", module="Cover_Stream"):
    """Histories that exercise every edge (or every pair of consecutive edges) of the abstract state
    graph of Env_Git x Impl_Stream.  Returns (histories, stats)."""
    import collections
    r = tlc.run_tlc(module, cfg=cfg, workers=1, coverage=False, timeout=900)
    tlc.require_ok(r, module)
    edges = [v for t, v in r.printed if t == "EDGE"]
    if not edges:
        raise core.ToolError("Cover_Stream produced no edges")
    canon = lambda x: json.dumps(x, sort_keys=True)
    for e in edges:
        e["from"], e["to"] = canon(e["from"]), canon(e["to"])
    init = edges[0]["from"]
    out = collections.defaultdict(list)
    seen = set()
    for e in edges:
        key = (e["from"], json.dumps(e["line"], sort_keys=True), e["to"])
        if key in seen:
            continue
        seen.add(key)
        out[e["from"]].append((e["line"], e["to"]))
    # BFS shortest histories to every node
    path = {init: []}
    q = collections.deque([init])
    while q:
        u = q.popleft()
        for line, v in out[u]:
            if v not in path:
                path[v] = path[u] + [line]
                q.append(v)
    hists = []
    for u in path:
        for line, v in out[u]:
            if not pairs:
                hists.append(path[u] + [line])
            else:
                nxt = out.get(v, [])
                if not nxt:
                    hists.append(path[u] + [line])
                for line2, w in nxt:
                    hists.append(path[u] + [line, line2])
    return hists, {"nodes": len(path), "edges": len(seen), "histories": len(hists), "tlc_distinct": r.distinct,
                   "tlc_generated": r.generated}
