"""Streaming observation of delta: feed stdin line by line, and after each line wait until the
process has done everything it can with the input so far - main thread asleep in read(0) on an empty
pipe - then collect what is on stdout.  No wall-clock reasoning: the wait is on kernel state."""
import fcntl
import os
import struct
import subprocess
import termios
import time

from . import core


def _pending(fd):
    return struct.unpack("i", fcntl.ioctl(fd, termios.FIONREAD, struct.pack("i", 0)))[0]


def _blocked_in_read0(pid):
    """delta waits for input: some thread sleeps in read(0, ...), and every other thread sleeps too - in a read of its own
    (the signal-handler thread), a poll, or on a futex (a design in which a helper thread reads stdin and the main thread
    waits for it is observed just the same)."""
    try:
        reads0 = False
        for tid in os.listdir(f"/proc/{pid}/task"):
            st = open(f"/proc/{pid}/task/{tid}/stat").read()
            if st[st.rindex(")") + 2] != "S":
                return False
            sc = open(f"/proc/{pid}/task/{tid}/syscall").read().split()
            if not sc or sc[0] not in ("0", "7", "271", "202", "232", "281"):
                return False
            if sc[0] == "0" and len(sc) >= 2 and sc[1] == "0x0":
                reads0 = True
    except (FileNotFoundError, ProcessLookupError, ValueError, OSError):
        return False
    return reads0


def _blocked_in_read_any(pid):
    """(asleep?, fd) - the main thread sleeps in read(2) on some descriptor"""
    try:
        st = open(f"/proc/{pid}/task/{pid}/stat").read()
        state = st[st.rindex(")") + 2]
        sc = open(f"/proc/{pid}/task/{pid}/syscall").read().split()
    except (FileNotFoundError, ProcessLookupError, ValueError):
        return False, -1
    if state == "S" and len(sc) >= 2 and sc[0] == "0":
        return True, int(sc[1], 16)
    return False, -1


def _pending_of(pid, fd):
    """bytes waiting in descriptor fd of process pid (a pipe), via /proc/<pid>/fd/<fd>"""
    try:
        f = os.open(f"/proc/{pid}/fd/{fd}", os.O_RDONLY | os.O_NONBLOCK)
    except OSError:
        return -1
    try:
        return _pending(f)
    except OSError:
        return -1
    finally:
        os.close(f)


_WAITS = ("0", "7", "271", "232", "281", "61", "247")   # read poll ppoll epoll_wait epoll_pwait wait4 waitid


def _asleep_waiting(pid):
    """The process waits for input: every thread sleeps, at least one of them in a read-like call, the others there or on a
    futex (a design in which a helper thread reads and the main thread waits for it is observed just the same)."""
    try:
        tids = os.listdir(f"/proc/{pid}/task")
        waits = 0
        for tid in tids:
            st = open(f"/proc/{pid}/task/{tid}/stat").read()
            if st[st.rindex(")") + 2] != "S":
                return False
            sc = open(f"/proc/{pid}/task/{tid}/syscall").read().split()
            if not sc or sc[0] not in _WAITS + ("202",):
                return False
            waits += sc[0] in _WAITS
    except (FileNotFoundError, ProcessLookupError, ValueError, OSError):
        return False
    return waits >= 1


def _pipe_fds(pid):
    out = []
    try:
        for n in os.listdir(f"/proc/{pid}/fd"):
            try:
                if int(n) > 2 and os.readlink(f"/proc/{pid}/fd/{n}").startswith("pipe:"):
                    out.append(int(n))
            except OSError:
                pass
    except OSError:
        pass
    return out


def _children(pid):
    try:
        return [int(x) for x in open(f"/proc/{pid}/task/{pid}/children").read().split()]
    except (FileNotFoundError, ProcessLookupError, ValueError):
        return []


def _drain(fd):
    out = b""
    while True:
        try:
            b = os.read(fd, 1 << 16)
        except BlockingIOError:
            return out
        if not b:
            return out
        out += b


def stream(args, lines, env=None, timeout=20.0, prefix_args=("--paging", "never"), via="stdin"):
    """lines: list of bytes (without newline). Returns (seen, out, code, stderr, ok) where seen[k] is
    the number of stdout bytes observable once k lines have been consumed (k = 0..n).
    via = "stdin": delta reads the lines from its stdin and writes to stdout;
    via = "pager": as before, but delta writes to a pager (`cat`) that it starts itself: the snapshot is taken when
                   delta AND the pager sleep in read(2) on empty pipes;
    via = "wrap":  delta starts the producer itself (`delta <options> git show`, a stub that passes a FIFO through):
                   the snapshot is taken when the stub sleeps on the empty FIFO and delta sleeps on the empty pipe
                   from the stub."""
    if via != "stdin":
        return _stream_indirect(args, lines, env, timeout, via)
    argv = [core.DELTA] + list(prefix_args) + list(args)
    p = subprocess.Popen(argv, stdin=subprocess.PIPE, stdout=subprocess.PIPE, stderr=subprocess.PIPE,
                         env=core.base_env(env), cwd=os.path.join(core.scratch(), "cwd"))
    ofd = p.stdout.fileno()
    fl = fcntl.fcntl(ofd, fcntl.F_GETFL)
    fcntl.fcntl(ofd, fcntl.F_SETFL, fl | os.O_NONBLOCK)
    ifd = p.stdin.fileno()
    out = b""
    seen = []
    ok = True
    deadline = time.time() + timeout

    def quiesce():
        nonlocal out
        while time.time() < deadline:
            if p.poll() is not None:
                return False
            if _pending(ifd) == 0 and _blocked_in_read0(p.pid):
                out += _drain(ofd)
                # confirm the snapshot: still nothing to read for delta and still asleep in read(0)
                if _pending(ifd) == 0 and _blocked_in_read0(p.pid):
                    return True
            else:
                out += _drain(ofd)   # keep the stdout pipe from filling up
                time.sleep(0.0003)
        return False

    try:
        ok = quiesce()
        seen.append(len(out))
        for ln in lines:
            if not ok:
                break
            os.write(ifd, ln + b"\n")
            ok = quiesce()
            seen.append(len(out))
    except BrokenPipeError:
        ok = False
    try:
        p.stdin.close()
    except BrokenPipeError:
        pass
    p.stdin = None
    fcntl.fcntl(ofd, fcntl.F_SETFL, fl)
    try:
        rest, err = p.communicate(timeout=max(1.0, deadline - time.time()))
    except subprocess.TimeoutExpired:
        p.kill()
        rest, err = p.communicate()
        ok = False
    out += rest
    return seen, out, p.returncode, err, ok


def _stream_indirect(args, lines, env, timeout, via):
    env = dict(env or {})
    scratch = core.scratch()
    fifo = None
    if via == "pager":
        argv = [core.DELTA, "--paging", "always", "--pager", "cat"] + list(args)
        stdin = subprocess.PIPE
    else:
        fifo = os.path.join(scratch, f"fifo-{os.getpid()}-{time.time_ns()}")
        os.mkfifo(fifo)
        env.update({"PATH": os.path.join(core.FIXBIN, "bin") + ":/usr/bin:/bin", "STUB_OUT": fifo, "STUB_STREAM": "1"})
        argv = [core.DELTA, "--paging", "never"] + list(args) + ["git", "show"]
        stdin = subprocess.DEVNULL
    p = subprocess.Popen(argv, stdin=stdin, stdout=subprocess.PIPE, stderr=subprocess.PIPE,
                         env=core.base_env(env), cwd=os.path.join(scratch, "cwd"))
    ofd = p.stdout.fileno()
    fl = fcntl.fcntl(ofd, fcntl.F_GETFL)
    fcntl.fcntl(ofd, fcntl.F_SETFL, fl | os.O_NONBLOCK)
    ifd = p.stdin.fileno() if via == "pager" else os.open(fifo, os.O_WRONLY)
    out = b""
    seen = []
    deadline = time.time() + timeout

    def settled():
        kids = _children(p.pid)
        if via == "pager":
            # delta asleep on its empty stdin; the pager (once started) asleep on its empty stdin
            if not (_pending(ifd) == 0 and _blocked_in_read0(p.pid)):
                return False
            return all(_blocked_in_read0(k) and _pending_of(k, 0) == 0 for k in kids)
        # wrap: the stub asleep on the empty FIFO, delta asleep on the empty pipe from the stub
        if len(kids) != 1 or _pending(ifd) != 0:
            return False
        a, fd_stub = _blocked_in_read_any(kids[0])
        # delta asleep waiting for its producer - in read(2), or in poll(2) if it collects the output some other way -
        # with nothing unread in any of its pipes
        return a and _asleep_waiting(p.pid) and all(_pending_of(p.pid, fd) == 0 for fd in _pipe_fds(p.pid))

    def quiesce():
        nonlocal out
        while time.time() < deadline:
            if p.poll() is not None:
                return False
            if settled():
                out += _drain(ofd)
                if settled():
                    out += _drain(ofd)
                    return True
            else:
                out += _drain(ofd)
                time.sleep(0.0003)
        return False

    ok = True
    try:
        ok = quiesce()
        seen.append(len(out))
        for ln in lines:
            if not ok:
                break
            os.write(ifd, ln + b"\n")
            ok = quiesce()
            seen.append(len(out))
    except BrokenPipeError:
        ok = False
    if via == "pager":
        try:
            p.stdin.close()
        except BrokenPipeError:
            pass
        p.stdin = None
    else:
        os.close(ifd)
    fcntl.fcntl(ofd, fcntl.F_SETFL, fl)
    try:
        rest, err = p.communicate(timeout=max(1.0, deadline - time.time()))
    except subprocess.TimeoutExpired:
        p.kill()
        rest, err = p.communicate()
        ok = False
    out += rest
    if fifo:
        os.unlink(fifo)
    return seen, out, p.returncode, err, ok
