"""Streaming observation of delta: feed stdin line by line, and after each line wait until the
process has done everything it can with the input so far - main thread asleep in read(0) on an empty
pipe - then collect what is on stdout.  No wall-clock reasoning: the wait is on kernel state."""
import fcntl
import os
import struct
import subprocess
import termios
import time

from . import core


def _pending(fd):
    return struct.unpack("i", fcntl.ioctl(fd, termios.FIONREAD, struct.pack("i", 0)))[0]


def _blocked_in_read0(pid):
    try:
        st = open(f"/proc/{pid}/task/{pid}/stat").read()
        state = st[st.rindex(")") + 2]
        sc = open(f"/proc/{pid}/task/{pid}/syscall").read().split()
    except (FileNotFoundError, ProcessLookupError, ValueError):
        return False
    return state == "S" and len(sc) >= 2 and sc[0] == "0" and sc[1] == "0x0"


def _drain(fd):
    out = b""
    while True:
        try:
            b = os.read(fd, 1 << 16)
        except BlockingIOError:
            return out
        if not b:
            return out
        out += b


def stream(args, lines, env=None, timeout=20.0, prefix_args=("--paging", "never")):
    """lines: list of bytes (without newline). Returns (seen, out, code, stderr, ok) where seen[k] is
    the number of stdout bytes observable once k lines have been consumed (k = 0..n)."""
    argv = [core.DELTA] + list(prefix_args) + list(args)
    p = subprocess.Popen(argv, stdin=subprocess.PIPE, stdout=subprocess.PIPE, stderr=subprocess.PIPE,
                         env=core.base_env(env), cwd=os.path.join(core.scratch(), "cwd"))
    ofd = p.stdout.fileno()
    fl = fcntl.fcntl(ofd, fcntl.F_GETFL)
    fcntl.fcntl(ofd, fcntl.F_SETFL, fl | os.O_NONBLOCK)
    ifd = p.stdin.fileno()
    out = b""
    seen = []
    ok = True
    deadline = time.time() + timeout

    def quiesce():
        nonlocal out
        while time.time() < deadline:
            if p.poll() is not None:
                return False
            if _pending(ifd) == 0 and _blocked_in_read0(p.pid):
                out += _drain(ofd)
                # confirm the snapshot: still nothing to read for delta and still asleep in read(0)
                if _pending(ifd) == 0 and _blocked_in_read0(p.pid):
                    return True
            else:
                out += _drain(ofd)   # keep the stdout pipe from filling up
                time.sleep(0.0003)
        return False

    try:
        ok = quiesce()
        seen.append(len(out))
        for ln in lines:
            if not ok:
                break
            os.write(ifd, ln + b"\n")
            ok = quiesce()
            seen.append(len(out))
    except BrokenPipeError:
        ok = False
    try:
        p.stdin.close()
    except BrokenPipeError:
        pass
    p.stdin = None
    fcntl.fcntl(ofd, fcntl.F_SETFL, fl)
    try:
        rest, err = p.communicate(timeout=max(1.0, deadline - time.time()))
    except subprocess.TimeoutExpired:
        p.kill()
        rest, err = p.communicate()
        ok = False
    out += rest
    return seen, out, p.returncode, err, ok
