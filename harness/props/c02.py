"""C02 - --color-only is a line-for-line, text-preserving filter (git add -p contract)."""
import itertools
import json
import os
import random
import time

from .. import core, gitskin, lexer, stream, tlc
from ..core import log

PID = "C02"

# (option given on the command line, same thing as gitconfig key=value, override it constitutes)
OPTS = [
    (["--side-by-side"], ("side-by-side", "true"), None),
    (["--line-numbers"], ("line-numbers", "true"), "numbers"),
    (["--file-decoration-style", "box"], ("file-decoration-style", "box"), None),
    (["--hunk-header-decoration-style", "blue box ul"], ("hunk-header-decoration-style", "blue box ul"), None),
    (["--commit-decoration-style", "bold yellow box ul"], ("commit-decoration-style", "bold yellow box ul"), None),
    (["--commit-style", "omit"], ("commit-style", "omit"), "omit-commit"),
    (["--file-style", "omit"], ("file-style", "omit"), "omit-file"),
    (["--hunk-header-style", "omit"], ("hunk-header-style", "omit"), "omit-hunk-header"),
    (["--navigate"], ("navigate", "true"), None),
    (["--diff-so-fancy"], ("diff-so-fancy", "true"), None),
    (["--diff-highlight"], ("diff-highlight", "true"), None),
    (["--raw"], ("raw", "true"), None),
    (["--keep-plus-minus-markers"], ("keep-plus-minus-markers", "true"), None),
    (["--tabs", "4"], ("tabs", "4"), "tabs"),
    (["--hyperlinks"], ("hyperlinks", "true"), None),
    (["--relative-paths"], ("relative-paths", "true"), None),
    (["--dark"], ("dark", "true"), None),
    (["--syntax-theme", "none"], ("syntax-theme", "none"), None),
    (["--max-line-distance", "1.0"], ("max-line-distance", "1.0"), None),
    (["--line-buffer-size", "0"], ("line-buffer-size", "0"), None),
    # an explicit non-raw header style overrides the raw preset of the mode: text of that class may then be
    # decorated (e.g. navigate's labels); the line-for-line law still applies
    (["--hunk-header-style", "red"], ("hunk-header-style", "red"), "omit-hunk-header"),
    (["--file-style", "red bold"], ("file-style", "red bold"), "omit-file"),
    (["--commit-style", "yellow"], ("commit-style", "yellow"), "omit-commit"),
    (["--hunk-header-style", "file line-number syntax"], ("hunk-header-style", "file line-number syntax"), "hunk-header-words"),
    # decorations asked for inside a style string (not through the *-decoration-style option)
    (["--file-style", "red box"], ("file-style", "red box"), "omit-file"),
    (["--commit-style", "box"], ("commit-style", "box"), "omit-commit"),
    (["--hunk-header-style", "raw box"], ("hunk-header-style", "raw box"), None),
    (["--file-style", "raw overline"], ("file-style", "raw overline"), None),
]


def tab_payload(k, c):
    return f"tokZ{k}Z\tw{k % 3}" if k % 4 == 0 else f"tokZ{k}Z w{k % 3}"


def run(tier):
    t0 = time.time()
    V = core.Verdict(PID)
    rnd = random.Random(core.seed())
    # design level: the handler chain in color-only mode writes one row per input line, in order
    design = {}
    for mod, cfg in (("MC_Stream", "MC_Stream_co"), ("MC_Stream", "MC_Stream_co_cc"), ("MC_DiffU", "MC_DiffU_co_bare"), ("MC_DiffU", "MC_DiffU_co_titled")):
        mc = tlc.run_tlc(mod, cfg=cfg, workers=8, coverage=False, heap="8g", timeout=3000)
        tlc.require_ok(mc, cfg)
        if mc.violated:
            V.drift.append(f"module=Impl_Stream(ColorOnly) design-level {mc.violated} violated in {cfg}")
        design[cfg] = mc.distinct
    reg = tlc.run_tlc("MC_DiffU", cfg="MC_DiffU_co_noD23", workers=4, coverage=False, timeout=600)
    if reg.violated != "LineForLine":
        raise core.ToolError("regression config MC_DiffU_co_noD23 did not violate LineForLine: design-level check is vacuous")
    cov, covstats = stream.cover_histories(pairs=False)
    covcc, _ = stream.cover_histories(pairs=False, cfg="Cover_Stream_cc")
    cov = cov + covcc * 3      # combined diffs are few: weigh them up in the sample
    # plain diff -u / diff -ru streams (no "diff --git" line between files), submodule and mode+binary sections
    for cfg, mod in (("Cover_DiffU_bare", "Cover_DiffU"), ("Cover_DiffU_titled", "Cover_DiffU"), ("Cover_Stream_sub", "Cover_Stream"),
                     ("Cover_Stream_mode", "Cover_Stream")):
        extra, _ = stream.cover_histories(pairs=False, cfg=cfg, module=mod)
        cov = cov + extra * (6 if mod == "Cover_DiffU" else 1)
    # git never hands over a hunk header without lines: inputs end in a complete hunk
    cov = [h for h in cov if len(h) >= 2 and h[-1]["c"] != "hh"]
    nh = 400 if tier == "quick" else 4000
    hists = rnd.sample(cov, min(nh, len(cov)))
    # option subsets: every single option and every pair (thorough: also random triples)
    subsets = [()] + [(i,) for i in range(len(OPTS))] + list(itertools.combinations(range(len(OPTS)), 2))
    if tier == "thorough":
        subsets += [tuple(sorted(rnd.sample(range(len(OPTS)), 3))) for _ in range(600)]
    # the same option cannot be given twice
    subsets = [sub for sub in subsets if len({OPTS[i][1][0] for i in sub}) == len(sub)]
    cfgdir = os.path.join(core.scratch(), "c02cfg")
    os.makedirs(cfgdir, exist_ok=True)
    jobs = []
    for si, sub in enumerate(subsets):
        via_gitconfig = si % 2 == 1
        over = [OPTS[i][2] for i in sub if OPTS[i][2]]
        if via_gitconfig:
            path = os.path.join(cfgdir, f"c{si}.gitconfig")
            with open(path, "w") as f:
                f.write("[delta]\n" + "".join(f"    {OPTS[i][1][0]} = {OPTS[i][1][1]}\n" for i in sub))
            args = ["--config", path, "--color-only"]
        else:
            args = ["--no-gitconfig", "--color-only"] + [a for i in sub for a in OPTS[i][0]]
        per = 14 if tier == "quick" else 40
        for h in rnd.sample(hists, per):
            jobs.append((h, args, over, si % 5, [OPTS[i][1][0] for i in sub], via_gitconfig))
    # lines longer than the default --max-line-length (a recorded finding, see known_findings.json)
    Lk = lambda c, f=0, g=0, kd="": {"c": c, "f": f, "g": g, "kd": kd}
    long_h = [Lk("diff", 1, 1, "mod"), Lk("index"), Lk("mmm", 1), Lk("ppp", 1), Lk("hh"), Lk("zero"), Lk("minus"), Lk("plus")]
    jobs.append((long_h, ["--no-gitconfig", "--color-only"], [], 0, ["(a 3500-character line)"], False))
    # files with CRLF line endings, lines longer than a small window: git colours the CR of an added line as a whitespace
    # error, so escape sequences stand between the CR and the line feed
    crlf_hists = [h for h in hists if sum(l["c"] in ("plus", "minus", "zero") for l in h) >= 2]
    for j, h in enumerate(rnd.sample(crlf_hists, min(len(crlf_hists), 40 if tier == "quick" else 400))):
        jobs.append((h, ["--no-gitconfig", "--color-only"], [], 100 + j % 5, [], False))
    log(f"[{PID}] {len(subsets)} option sets x histories = {len(jobs)} runs")
    intern = gitskin.Interner()

    def one(job):
        h, args, over, variant, names, via = job
        pay = tab_payload if h is not long_h else (lambda k, c: f"tokZ{k}Z " + "x" * (3500 if k >= 7 else 5))
        if variant >= 100:
            variant -= 100
            pay = lambda k, c: (f"tokZ{k}Z " + "the quick brown fox jumps over the lazy dog " * (1 + k % 3) + "\r") if c in ("plus", "minus", "zero") else tab_payload(k, c)
        data, texts = gitskin.concretise(h, payload=pay, skin={"frag": ["std", "none", "numbers", "space"][variant % 4]})
        if variant:
            texts = gitskin.colourise(h, texts, variant)
            data = "".join(t + "\n" for t in texts).encode()
        return data, texts, core.run_delta(args, data)

    res = core.pmap(one, jobs)
    events = []
    for i, ((h, args, over, variant, names, via), (data, texts, r)) in enumerate(zip(jobs, res)):
        rows, tail = lexer.split_rows(r.out)
        if tail:
            rows.append(tail)
        events.append({"run": i, "cls": [l["c"] for l in h], "tab": ["\t" in t for t in texts],
                       "vin": [intern(lexer.strip_ansi(stream.normalise_line(t.encode()))) for t in texts],     # (CRLF normalisation is permitted)
                       "vout": [intern(lexer.strip_ansi(b)) for b in rows], "over": over,
                       "code": 999 if r.timed_out else r.code, "plain": not names,
                       "lines": [{"c": l["c"], "f": l["f"], "g": l["g"], "kd": l.get("kd", "")} for l in h]})
    failed, tr = tlc.validate_trace("Trace_ColorOnly", events)
    for t, v in tr.printed:
        if t == "DRIFT":
            for d in (v if isinstance(v, list) else [])[:5]:
                V.drift.append(f"module=Impl_Stream(ColorOnly) line-for-line differs between model and binary on [{stream.shape(jobs[d][0])[:160]}]")
    log(f"[{PID}] {len(events)} runs judged by TLC (Trace_ColorOnly), {len(failed)} rejected")
    for f in failed:
        h, args, over, variant, names, via = jobs[f["run"]]
        data, texts, r = res[f["run"]]
        cls = h[f["at"] - 1]["c"] if f["why"] == "text" and f["at"] <= len(h) else ""
        opts = "+".join(names) or "(none)"
        # identify the failing behaviour by the options involved and the class of line affected
        lost = ""
        if f["why"] == "line-count":
            lost = f" in={len(h)} out={f['at']}"
        if h is long_h and f["why"] == "text":
            V.violation("truncation:max-line-length", "--color-only truncates a hunk line longer than the default --max-line-length",
                        {"history": h, "args": args, "run": r.to_json(), "failure": f})
            continue
        V.violation(f"{f['why']}:{opts}:{cls}", f"--color-only with {opts} ({'gitconfig' if via else 'command line'}): "
                    f"{f['why']}{lost} on [{stream.shape(h)[:160]}] {('line class ' + cls) if cls else ''}",
                    {"history": h, "args": args, "run": r.to_json(), "failure": f})
    rc = V.finish()
    core.write_evidence(PID, tier, "model_checking", {
        "states": sum(design.values()), "transitions": sum(design.values()), "design_models": design, "regression_model_rejected": True,
        "traces_validated_against_impl": len(events), "evaluations": len(events),
        "distinct_nontrivial": len({json.dumps(j[0]) + " ".join(j[1]) + str(j[3]) for j in jobs}),
        "rule": "design level: Impl_Stream with ColorOnly = TRUE satisfies LineForLine on every git / combined / diff -u history in bounds; "
                "binary: option sets = every single option and every pair (thorough: + random triples) of 20 options combined with "
                "--color-only, alternately on the command line and in a generated gitconfig; inputs = histories from the "
                "transition cover of Env_Git x Impl_Stream, plain and in 4 git-colourings; TLC (Trace_ColorOnly) judges "
                "line-for-line and text-preservation with the exemptions the statement lists",
        "option_sets": len(subsets), "transition_cover": covstats,
        "samples": [{"args": jobs[i][1], "history": stream.shape(jobs[i][0]), "coloured_variant": jobs[i][3]} for i in (0, 1, 2)],
        "exhaustive": False,
    }, time.time() - t0, len(V.violations),
        ["TLC states here are monitor steps (one per run); the input grammar is Env_Git's",
         "an override exempts only the line classes it can affect (Exempt in Trace_ColorOnly.tla)"])
    return rc


def replay(path):
    return core.generic_replay(path)
