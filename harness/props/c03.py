"""C03 - delta never crashes or hangs, whatever bytes and options it is given."""
import json
import os
import random
import time

from .. import core, gitskin, stream, tlc
from ..core import log

PID = "C03"

# hostile / malformed line classes (Env_Hostile): injected at every position of model histories
HOSTILE = [
    b"@@ foo @@", b"@@ -1 +1 @@@", b"@@ -99999999999999999999999,1 +1,1 @@", b"@@@ -1,1 -1,1 +1,1 @@@ x", b"@@ -1,1 +1,1", b"@@",
    b"@@ @@", b"@@ -0,0 +0,0 @@", b"@@ -4294967296,4294967296 +18446744073709551615,1 @@",
    b"diff --git ", b"diff --git a", b"diff --git a/x", b"diff --git a/x b/", b"diff --cc", b"diff --cc x", b"diff -u", b"diff",
    b"--- ", b"+++ ", b"+++ b/", b'rename from "', b'--- "', b'+++ "', b'copy to "', b'diff --git " "', b"--- a/x\t", b"rename from", b"rename to ", b"rename from ", b"copy to", b"Binary files  differ",
    b"Binary files a and b differ", b"Binary files /dev/null and /dev/null differ", b"Submodule x 123..456:", b"Submodule ",
    b"-Subproject commit 0123456789012345678901234567890123456789", b"+Subproject commit x",
    b"index", b"old mode", b"old mode ", b"new mode 1", b"new mode 100755", b"new file mode", b"deleted file mode ", b"similarity index",
    b"commit", b"commit ", b"commit deadbeef", b"commit 1234567890abcdef1234567890abcdef12345678 (HEAD -> m, \xe4\xb8\x96)",
    b"\x1b[", b"\x1b[38;5;", b"\x1b]8;;x", b"\x1b[" + b";".join(str(i).encode() for i in range(40)) + b"m" + b"x", b"\x1b[?!m", b"\x1b[1;;;m",
    b"\x1b", b"\x1b\\", b"\x1b]8;;\x1b\\", b"\x1b[38;2;300;300;300mx", b"\x1b[31m-\x1b[m\x1b[31mx", b"\x1b[1mdiff --git a/x b/x\x1b[m",
    b"\xff\xfe", b"\xc3", b"-\xff", b"+\xe4\xb8", b" \xf0\x9f", b"\xe4\xb8\x96" * 300, b"\xcc\x81" * 50, b"a\xcc\x81\xcc\x81\xcc\x81",
    b"++<<<<<<< HEAD", b"++||||||| parent", b"++=======", b"++>>>>>>> x", b"+ +<<<<<<<", b"<<<<<<< HEAD",
    b"{", b"{}", b'{"type":"match"}', b'{"type":"begin","data":{}}', b'{"type":"match","data":null}',
    b'{"type":"match","data":{"path":{"text":"x"},"lines":{"text":"\xc3\xa9\\n"},"line_number":1,"absolute_offset":0,'
    b'"submatches":[{"match":{"text":"x"},"start":1,"end":2}]}}',
    b'{"type":"match","data":{"path":{"text":"x"},"lines":{"text":"ab\\n"},"line_number":1,"absolute_offset":0,'
    b'"submatches":[{"match":{"text":"x"},"start":5,"end":9}]}}',
    b'{"type":"match","data":{"path":{"text":"x"},"lines":{"text":"ab\\n"},"line_number":1,"absolute_offset":0,'
    b'"submatches":[{"match":{"text":"x"},"start":2,"end":1}]}}',
    b'{"type":"context","data":{"path":{"text":""},"lines":{"text":""},"line_number":18446744073709551615,"absolute_offset":0,'
    b'"submatches":[]}}',
    # genuine-looking rg records: a match in front of tabs, multi-byte text behind them (tab expansion moves the offsets)
    b'{"type":"match","data":{"path":{"text":"x"},"lines":{"text":"a\\t\xe6\x97\xa5\xe6\x9c\xac\\tb\\n"},"line_number":1,"absolute_offset":0,'
    b'"submatches":[{"match":{"text":"a"},"start":0,"end":1}]}}',
    b'{"type":"match","data":{"path":{"text":"x"},"lines":{"text":"\\t\\tab\xc3\xa9\\t\xe4\xb8\x96 ab\\n"},"line_number":2,"absolute_offset":9,'
    b'"submatches":[{"match":{"text":"ab"},"start":2,"end":4},{"match":{"text":"ab"},"start":11,"end":13}]}}',
    b"ea82f2d0 (\xe4\xb8\x96\xe7\x95\x8c\xe4\xb8\x96\xe7\x95\x8c 2021-08-22 18:20:19 -0700 120) x",
    b"ea82f2d0 (A 2021-08-22 18:20:19 -0700 99999999999999999999999) x", b"ea82f2d0 (A 2021-13-45 25:61:61 -9999 1) x",
    b"^ea82f2d (A 0000-00-00 00:00:00 +0000 0)", b"src/a.rs:18446744073709551616:x", b"a.rs:1:", b":1:x", b"a.rs-1-", b"--",
    b"a" * 70000, b"-" + b"x" * 5000, b"+" + b"\t" * 3000, b" " + b"\xe4\xb8\x96" * 2000, b"", b" ", b"-", b"+", b"\\", b"\\ No newline",
    b"Only in a: x", b"Only in ", b"Only in", b"Only in a/b c: d e", b"diff -ru a b", b"diff -r -u a", b"diff -U3 a b", b"Submodule x contains untracked content",
    # ESC followed by a multi-byte character: the byte-wise escape parser ends a sequence inside the character
    b"\x1b\xc3\xa9\x0c\t4", b"-\x1b\xef\xbf\xbd\x0c\t4", b"+x\x1b[31\xc3\xa9m\x0cq", b" \x1b]8;;\xe4\xb8\x96\x0c", b"\x1b\xe4\xb8\x96\x1b\xc3\xa9\r",
    b"\r", b"-\r", b"+x\r\x1b[m", b"\x00", b"-\x00\x00", b"+\x7f\x08\x08", b" \x1b[2K\x1b[1A",
]

OPTION_SETS = [
    [], ["--side-by-side"], ["--line-numbers"], ["--side-by-side", "--line-numbers"], ["--color-only"], ["--raw"],
    ["--diff-so-fancy"], ["--diff-highlight"], ["--navigate"], ["--hyperlinks"], ["--relative-paths"],
    ["--width", "1"], ["--width", "2"], ["--width", "3"], ["--width", "5"], ["--width", "8"], ["--width", "9"],
    ["--side-by-side", "--width", "1"], ["--side-by-side", "--width", "4"], ["--side-by-side", "--width", "7"],
    ["--side-by-side", "--width", "12"], ["--side-by-side", "--width", "13"], ["--side-by-side", "--width", "16"],
    ["--side-by-side", "--width", "17", "--wrap-max-lines", "unlimited"], ["--side-by-side", "--width", "20", "--wrap-max-lines", "0"],
    ["--side-by-side", "--width", "21", "--wrap-max-lines", "1", "--wrap-right-percent", "99"],
    ["--max-line-length", "0"], ["--max-line-length", "1"], ["--max-line-length", "3", "--side-by-side"],
    ["--line-buffer-size", "0"], ["--tabs", "0"], ["--tabs", "1"], ["--tabs", "40", "--width", "20"],
    ["--zero-style", "syntax 236", "--width", "10"], ["--zero-style", "normal 22", "--width", "4", "--line-numbers"],
    ["--minus-style", "red 52", "--plus-style", "green 22", "--width", "6", "--line-fill-method", "spaces"],
    ["--line-numbers", "--line-numbers-left-format", "", "--line-numbers-right-format", ""],
    ["--line-numbers", "--line-numbers-left-format", "{nm:>1}", "--line-numbers-right-format", "{np:^0}"],
    ["--file-decoration-style", "box ul ol", "--hunk-header-decoration-style", "box", "--width", "3"],
    ["--hunk-header-style", "omit", "--file-style", "omit", "--commit-style", "omit"],
    ["--hunk-header-style", "raw", "--file-style", "raw"], ["--keep-plus-minus-markers", "--width", "2", "--side-by-side"],
    ["--word-diff-regex", "", "--max-line-distance", "1"], ["--word-diff-regex", "(", "--max-line-distance", "0"],
    ["--inspect-raw-lines", "false"], ["--grep-output-type", "classic"], ["--blame-format", "{commit}{author:>0}{timestamp:^1}"],
    ["--blame-palette", "red"], ["--true-color", "never", "--syntax-theme", "none"], ["--wrap-max-lines", "unlimited", "--side-by-side", "--width", "14"],
    ["--merge-conflict-begin-symbol", "", "--merge-conflict-end-symbol", ""], ["--paging", "never", "--width", "variable"],
    ["--plus-style", "raw", "--minus-style", "raw", "--zero-style", "raw"], ["--plus-style", "raw", "--side-by-side", "--width", "30"],
    # (a width that is no usable number: to be refused, not accepted and then stumbled over)
    ["--line-numbers", "--line-numbers-left-format", "{nm:^99999999999999999999999}"],
]
# hunk lines of a combined diff whose prefix columns hold something else than "+", "-", " ": a multi-byte character, a tab,
# an escape sequence in the middle - plain and in colours git does not use for added / removed lines (delta then keeps the
# line as it came)
CC_PREFIX_LINES = [b"+\xc3\xa9x", b" \xc3\xa9y", b"-\xe4\xb8\x96z", b"+\tfoo", b"\t+bar", b"\t\tbaz", b"\x1b[1;35m+\tfoo\x1b[m", b"\x1b[1;36m+\xc3\xa9x\x1b[m",
                   b"\x1b[2m \x1b[m\x1b[2m\xc3\xa9\x1b[m", b"+\x1b[31m+x\x1b[m", b"\xc3\xa9", b"+", b"\xcc\x81+x", b"+\xcc\x81x"]


def run(tier):
    t0 = time.time()
    V = core.Verdict(PID)
    rnd = random.Random(core.seed())
    # which option sets does delta accept at all? (an option set it rejects is outside the quantifier)
    trivial = b"diff --git a/x b/x\n--- a/x\n+++ b/x\n@@ -1 +1 @@\n-a\n+b\n"
    accepted = []
    for o in OPTION_SETS:
        r = core.run_delta(["--no-gitconfig"] + o, b"", allow_usage_error=True, timeout=10)
        if r.code == 0:
            accepted.append(o)
        elif r.timed_out or b"panicked" in r.err or r.code not in (1, 2):
            # an option value is either refused (message, exit 2) or works: a panic while the options are read is a crash
            V.violation(f"options-panic:{' '.join(o)}", f"delta crashed while reading the options {' '.join(o)}: exit {r.code} {r.err[:200]!r}",
                        {"run": r.to_json()})
    cov, covstats = stream.cover_histories(pairs=False)
    base = rnd.sample(cov, min(len(cov), 250 if tier == "quick" else 3000))
    # (combined diffs with conflict regions, plain diff -u streams and submodule sections as well)
    for cfg, mod in (("Cover_Stream_cc", "Cover_Stream"), ("Cover_DiffU_bare", "Cover_DiffU"), ("Cover_Stream_sub", "Cover_Stream")):
        more, _ = stream.cover_histories(pairs=False, cfg=cfg, module=mod)
        base += rnd.sample(more, min(len(more), 120 if tier == "quick" else 1000))
    jobs = []
    # (a) model histories with one hostile line injected at a random position, every hostile class x option sets
    for i, hline in enumerate(HOSTILE):
        for rep in range(5 if tier == "quick" else 16):
            h = rnd.choice(base)
            data, texts = gitskin.concretise(h, payload=lambda k, c: f"tokZ{k}Z 世界 w\t{k}")
            lines = [t.encode() for t in texts]
            pos = rnd.randrange(len(lines) + 1)
            lines.insert(pos, hline)
            jobs.append(("hostile", b"\n".join(lines) + b"\n", rnd.choice(accepted), f"hostile[{i}]@{pos}"))
    # every hostile line alone and twice in a row, under every accepted option set
    for i, hline in enumerate(HOSTILE):
        for o in (accepted if tier == "thorough" else rnd.sample(accepted, 10)):
            jobs.append(("hostile-alone", hline + b"\n" + hline + b"\n x\n", o, f"hostile[{i}] alone"))
    # lines with odd prefix columns inside a hunk of a combined diff (two and three parents), each under every accepted option set
    for i, pl in enumerate(CC_PREFIX_LINES):
        for np_ in (2, 3):
            at = b"@" * (np_ + 1)
            hdr = b"diff --cc f.rs\nindex 1,2..3\n--- a/f.rs\n+++ b/f.rs\n" + at + b" " + b"-1,2 " * np_ + b"+1,3 " + at + b"\n"
            body = b" " * np_ + b"ctx\n" + pl + b"\n" + b"+" * np_ + b"added\n" + pl + b"\n"
            for o in (accepted if tier == "thorough" else rnd.sample(accepted, 12) + [x for x in accepted if "raw" in x and "--plus-style" in x]):
                jobs.append(("cc-prefix", hdr + body, o, f"cc-prefix[{i}] {np_} parents"))
    # submodule lines in sequences git does not write (a duplicated or spliced patch): a third line after a complete pair, a
    # pair inside a pair, a lone "+" line
    SUBA, SUBB, SUBC = (b"Subproject commit " + ch * 40 for ch in (b"a", b"b", b"c"))
    for i, seq in enumerate([[b"-" + SUBA, b"+" + SUBB, b"+" + SUBC], [b"-" + SUBA, b"-" + SUBB, b"+" + SUBC], [b"+" + SUBA, b"+" + SUBB],
                             [b"-" + SUBA, b"+" + SUBB, b"-" + SUBC, b"+" + SUBA, b" ctx"], [b"-" + SUBA, b"@@ -1 +1 @@", b"+" + SUBB]]):
        body = b"diff --git a/sub b/sub\nindex 1..2 160000\n--- a/sub\n+++ b/sub\n@@ -1 +1 @@\n" + b"\n".join(seq) + b"\n"
        for o in (accepted if tier == "thorough" else rnd.sample(accepted, 10)):
            jobs.append(("sub-seq", body, o, f"sub-seq[{i}]"))
    # (b) well-formed model histories under every accepted option set
    for h in base[:120 if tier == "quick" else 1500]:
        data, texts = gitskin.concretise(h, payload=lambda k, c: ("x" * (k * 7 % 60)) + " 世界\t́e")
        for o in rnd.sample(accepted, 4):
            jobs.append(("wellformed", data, o, stream.shape(h)[:80]))
    # (c) byte-level mutations of concretised inputs
    nmut = 800 if tier == "quick" else 20000
    for i in range(nmut):
        r2 = random.Random(core.seed() * 611953 + i)
        h = r2.choice(base)
        data, _ = gitskin.concretise(h)
        b = bytearray(data)
        for _ in range(r2.randint(1, 4)):
            op = r2.randrange(6)
            if not b:
                break
            p = r2.randrange(len(b))
            if op == 0:
                del b[p:p + r2.randint(1, 8)]
            elif op == 1:
                b[p:p] = b[max(0, p - r2.randint(1, 30)):p]
            elif op == 2:
                b[p] ^= 1 << r2.randrange(8)
            elif op == 3:
                b[p:p] = r2.choice([b"\xff", b"\x1b[", b"\x00", b"\xe4\xb8", b"@@", b"\n\n", b"\x1b[38;5;1m", b"\t" * 9])
            elif op == 4:
                b = b[:p]
            else:
                q = r2.randrange(len(b))
                b[p:p] = b[q:q + r2.randint(1, 40)]
        jobs.append(("mutated", bytes(b), r2.choice(accepted), f"mutation {i}"))
    # (e) streams of mixed origin: a plain diff -u history followed by a combined-diff or submodule history (or the other
    # way round), one hostile line injected; the state of one source meets the lines of another
    covdu, _ = stream.cover_histories(pairs=False, cfg="Cover_DiffU_bare", module="Cover_DiffU")
    covcc, _ = stream.cover_histories(pairs=False, cfg="Cover_Stream_cc")
    covsub, _ = stream.cover_histories(pairs=False, cfg="Cover_Stream_sub")
    extra_hostile = [b" \xc3\xa9x", b"+\xe4\xb8\x96", b"+++ b/zzz", b"--- a/zzz", b"-Subproject commit " + b"0123456789" * 4,
                     b"+Subproject commit " + b"0123456789" * 4, b"Only in a: b", b"++<<<<<<< HEAD", b"++>>>>>>> x", b"@@@ -1,1 -1,1 +1,1 @@@"]
    for i in range(300 if tier == "quick" else 6000):
        r2 = random.Random(core.seed() * 9176 + i)
        parts = [r2.choice(covdu), r2.choice(covcc if i % 2 else covsub)]
        if r2.random() < 0.3:
            parts.reverse()
        lines = []
        for h in parts:
            lines += [t.encode() for t in gitskin.concretise(h, payload=lambda k, c: f"tokZ{k}Z é w")[1]]
        hl = r2.choice(extra_hostile + HOSTILE)
        lines.insert(r2.randrange(len(lines) + 1), hl)
        if r2.random() < 0.4:
            lines = lines[:r2.randrange(1, len(lines) + 1)]       # the producer stops anywhere
        jobs.append(("mixed", b"\n".join(lines) + b"\n", r2.choice(accepted), f"mixed {i}"))
    # (f) git blame streams in which git has coloured some lines itself (blame.coloring), keys repeating
    for i in range(120 if tier == "quick" else 2500):
        r2 = random.Random(core.seed() * 4241 + i)
        keys = [("ea82f2d0", "Dan Davison"), ("bb82f2d0", "Xan Davison"), ("^c2257cf", "\u4e16\u754c Other")]
        lines = []
        for j in range(r2.randint(1, 7)):
            c, a = r2.choice(keys) if not lines or r2.random() < 0.6 else last
            last = (c, a)
            t = f"{c} ({a:<16} 2021-08-2{j % 9} 18:20:19 -0700 {120 + j}) code {j}"
            if r2.random() < 0.4:
                t = f"\x1b[{r2.choice(['31', '1;34', '38;5;9', '2'])}m{t}\x1b[m"
            lines.append(t.encode())
        if i % 8 == 0:     # a key that has a colour of ours, then a line in git's colours, then the key again; a coloured line repeated plain
            mk = lambda c, a, j, col: (f"\x1b[31m{c} ({a:<16} 2021-08-22 18:20:19 -0700 {j}) x\x1b[m" if col else f"{c} ({a:<16} 2021-08-22 18:20:19 -0700 {j}) x").encode()
            lines = [mk(*keys[0], 1, False), mk(*keys[1], 2, True), mk(*keys[0], 3, False), mk(*keys[2], 4, True), mk(*keys[2], 5, False)]
        jobs.append(("blame", b"\n".join(lines) + b"\n", r2.choice(accepted), f"blame {i}"))
    # (g) rg --json records with extreme numbers and awkward text
    import json as _json
    NUMS = [0, 1, 2, 2 ** 31, 2 ** 32, 2 ** 63, 2 ** 64 - 1]
    TXT = ["fn x(\n", "\tfn x(\n", "\t\t\u4e16\u754c fn\n", "", "\n", "x" * 300 + "\n", "a\u0301\tb\n"]
    for i in range(150 if tier == "quick" else 3000):
        r2 = random.Random(core.seed() * 733 + i)
        recs = []
        for j in range(r2.randint(1, 4)):
            subs = [{"match": {"text": "fn"}, "start": r2.choice(NUMS), "end": r2.choice(NUMS)} for _ in range(r2.randint(0, 2))]
            recs.append(_json.dumps({"type": r2.choice(["match", "context", "begin", "end"]),
                                     "data": {"path": {"text": r2.choice(["src/cli.rs", "", "\u4e16.rs"])}, "lines": {"text": r2.choice(TXT)},
                                              "line_number": r2.choice(NUMS + [None]), "absolute_offset": r2.choice(NUMS),
                                              "submatches": subs}}))
        jobs.append(("rg-json", ("\n".join(recs) + "\n").encode(), r2.choice(accepted), f"rg-json {i}"))
    # (d) arbitrary bytes
    for i in range(150 if tier == "quick" else 3000):
        r2 = random.Random(core.seed() * 31 + i)
        n = r2.choice([0, 1, 7, 64, 500, 4000])
        jobs.append(("random", bytes(r2.randrange(256) for _ in range(n)), r2.choice(accepted), f"random {i}"))

    def one(job):
        kind, data, opts, what = job
        return core.run_delta(["--no-gitconfig"] + opts, data, timeout=10, mem_kb=3_000_000)

    res = core.pmap(one, jobs)
    bad = 0
    by_sig = {}
    for (kind, data, opts, what), r in zip(jobs, res):
        why = None
        if r.timed_out:
            why = "hang"
        elif b"panicked" in r.err or r.code in (101, 134, 139, -6, -11):
            why = "panic"
        elif r.code != 0:
            why = f"exit-{r.code}"
        if why:
            bad += 1
            loc = ""
            if why == "panic":
                import re
                m = re.search(rb"panicked at ([^:\n]+:\d+)", r.err)
                loc = m.group(1).decode() if m else "?"
            sig = f"{why}:{loc}"
            if sig not in by_sig:
                by_sig[sig] = (kind, what, opts, r)
    for sig, (kind, what, opts, r) in by_sig.items():
        V.violation(sig, f"{sig} on {kind} input ({what}) with options {' '.join(opts) or '(none)'}: {r.err[:200]!r}",
                    {"kind": kind, "options": opts, "run": r.to_json()})
    log(f"[{PID}] {len(jobs)} runs ({len(accepted)}/{len(OPTION_SETS)} option sets accepted), {bad} crashed/hung/failed "
        f"({len(by_sig)} distinct sites)")
    rc = V.finish()
    core.write_evidence(PID, tier, "exploration", {
        "evaluations": len(jobs), "distinct_nontrivial": len({(j[1], tuple(j[2])) for j in jobs}),
        "rule": f"{len(HOSTILE)} hostile line classes injected into transition-cover histories of the stream model and alone, "
                f"{len(accepted)} accepted option sets (tiny and odd widths, zero limits, every presentation mode); well-formed "
                "histories with wide/combining/tab payloads; seeded byte-level mutations (delete, duplicate, bit flip, insert invalid "
                "UTF-8 / escapes, truncate, splice); arbitrary bytes. Oracle: exit status 0, no panic message, < 10 s, < 3 GB",
        "crash_sites": sorted(by_sig), "transition_cover": covstats,
        "samples": [{"kind": jobs[i][0], "what": jobs[i][3], "options": jobs[i][2]} for i in (0, len(jobs) // 2, len(jobs) - 1)],
        "exhaustive": False,
    }, time.time() - t0, len(V.violations),
        ["built with overflow checks on and debug assertions off (the user's code paths, arithmetic overflow visible)",
         "the model contributes the structured corner (histories, hostile classes); arbitrary bytes are randomized testing"])
    return rc


def replay(path):
    return core.generic_replay(path)
