"""C14 - one header per file section (right file, right event) and one per hunk."""
import json
import random
import time

from .. import core, gitskin, stream, tlc
from ..core import log

PID = "C14"

SKINS = {
    "plain": {},
    "dir-with-space": {"dir": "src/sub dir"},
    "mnemonic-iw": {"prefixes": ("i/", "w/")},
    "mnemonic-co": {"prefixes": ("c/", "o/"), "dir": "lib"},
    "quoted-nonascii": {"quote": True},
    "quoted-nonascii-dir": {"quote": True, "dir": "d1/d2"},
    "quoted-nonascii-space": {"quote": True, "dir": "sp ace"},
    # core.quotepath=false: non-ASCII paths arrive as raw UTF-8
    "raw-utf8": {"names": {1: "alphaZ1Z-é世.rs", 2: "betaZ2Z-üñ.rs", 3: "gammaZ3Z-ß.rs"}, "dir": "répertoire"},
    # directories that look like git's own a/ b/ c/ i/ o/ w/ prefixes
    "dir-named-a": {"dir": "a"},
    "dir-named-w": {"dir": "w/i"},
    "dir-named-b-mnemonic": {"dir": "b", "prefixes": ("c/", "w/")},
}


def run(tier):
    t0 = time.time()
    V = core.Verdict(PID)
    rnd = random.Random(core.seed())
    mc = tlc.run_tlc("MC_Stream", cfg=f"MC_Stream_{tier}", workers=8, coverage=False, heap="8g", timeout=3400)
    tlc.require_ok(mc, "MC_Stream")
    hists = [v["h"] for t, v in mc.printed if t == "REPLAY"]
    cex = [v for t, v in mc.printed if t == "CEX"]
    reg = tlc.run_tlc("MC_Stream", cfg="MC_Stream_noD14", workers=4, coverage=False, timeout=600)
    if not reg.violated:
        raise core.ToolError("regression config MC_Stream_noD14 was not rejected: design-level check is vacuous")
    cov, covstats = stream.cover_histories(pairs=(tier == "thorough"))
    covcc, covccstats = stream.cover_histories(pairs=(tier == "thorough"), cfg="Cover_Stream_cc")
    cov = cov + covcc
    # submodule sections (Submodule log lines, Subproject commit pairs) next to ordinary sections
    msub = tlc.run_tlc("MC_Stream", cfg="MC_Stream_sub", workers=8, coverage=False, heap="8g", timeout=1800)
    tlc.require_ok(msub, "MC_Stream_sub")
    cex += [v for t, v in msub.printed if t == "CEX"][:3]
    reg19 = tlc.run_tlc("MC_Stream", cfg="MC_Stream_noD19", workers=4, coverage=False, timeout=600)
    if not reg19.violated:
        raise core.ToolError("regression config MC_Stream_noD19 was not rejected: design-level check is vacuous")
    covsub, covsubstats = stream.cover_histories(pairs=(tier == "thorough"), cfg="Cover_Stream_sub")
    cov = cov + covsub
    # mode changes combined with binary content and with renames
    mmode = tlc.run_tlc("MC_Stream", cfg="MC_Stream_mode", workers=8, coverage=False, heap="8g", timeout=1800)
    tlc.require_ok(mmode, "MC_Stream_mode")
    cex += [v for t, v in mmode.printed if t == "CEX"][:3]
    reg21 = tlc.run_tlc("MC_Stream", cfg="MC_Stream_noD21", workers=4, coverage=False, timeout=600)
    if not reg21.violated:
        raise core.ToolError("regression config MC_Stream_noD21 was not rejected: design-level check is vacuous")
    covmode, covmodestats = stream.cover_histories(pairs=(tier == "thorough"), cfg="Cover_Stream_mode")
    cov = cov + covmode
    for cfg in ("bare", "titled"):      # plain diff -u / diff -ru sources
        cdu, _ = stream.cover_histories(pairs=(tier == "thorough"), cfg=f"Cover_DiffU_{cfg}", module="Cover_DiffU")
        cov = cov + cdu
    allh = [c["h"] for c in cex] + hists + cov
    log(f"[{PID}] design level: {mc.distinct} distinct states, violated={mc.violated}; {len(hists)} enumerated + "
        f"{len(cov)} cover histories")
    if tier == "thorough" and len(allh) > 100000:
        allh = [c["h"] for c in cex] + rnd.sample(allh, 100000)        # (bounded: the run has to fit into time and memory)
    plans = [stream.Plan("rs/plain", allh, [], None, skin=SKINS["plain"])]
    per = 2500 if tier == "quick" else 12000
    for name, skin in SKINS.items():
        if name == "plain":
            continue
        plans.append(stream.Plan("rs/" + name, rnd.sample(cov, min(per, len(cov))), [], None, skin=skin))
    plans.append(stream.Plan("rs/arrow+numbers", rnd.sample(cov, min(per, len(cov))),
                             ["--right-arrow", "=>", "--line-numbers"], None, skin={}))
    # hunk headers are exempt from --max-line-length: a long code fragment arrives whole (two-way and combined hunks)
    plans.append(stream.Plan("rs/longfrag+maxlen", covcc + rnd.sample(cov, min(per, len(cov))),
                             ["--max-line-length", "100"], None, skin={"frag": "long"}))
    # a configured --file-transformation (one that happens to change none of these names): labels, mode and binary notes stay
    plans.append(stream.Plan("rs/file-transformation", rnd.sample(covmode, min(1500 if tier == "quick" else len(covmode), len(covmode))),
                             ["--file-transformation", "s,NOSUCHNAMEQQ,x,"], None, skin={}))
    failed, n, res, drift = stream.execute_and_validate(plans)
    log(f"[{PID}] replayed {n} runs, {len(failed)} rejected by Obs_Stream")
    for f in failed:
        p, h, data, r, ev, rows = res[f["run"]]
        if not stream.relevant(PID, f):
            continue
        sig = f"{f['why']}:{f['wt']}:{f['gt']}:{p.name.split('/')[1]}:{stream.shape(h)[:400]}"
        what = (f"history [{stream.shape(h)[:200]}] under {p.name}: the renamed binary file of input line {f['i']} is not reported as binary "
                f"(neither by its header nor by its 'Binary files' line)" if f["why"] == "binary-unreported" else
                f"history [{stream.shape(h)[:200]}] under {p.name}: wanted row {f['i']} ({f['wt']}) but output row {f['j']} is {f['gt']}")
        V.violation(sig, what,
                    {"history": h, "config": p.name, "run": r.to_json(), "failure": f})
    V.drift = drift
    rc = V.finish()
    core.write_evidence(PID, tier, "model_checking", {
        "states": mc.distinct, "transitions": mc.generated, "depth": mc.depth,
        "traces_validated_against_impl": n, "evaluations": n,
        "distinct_nontrivial": len({json.dumps(x[1], sort_keys=True) + x[0].name for x in res}),
        "rule": "Env_Git histories (all up to ReplayLen, plus transition cover of the abstract state graph) x path skins "
                f"{sorted(SKINS)}; distinct = distinct (history, skin)",
        "transition_cover": covstats, "transition_cover_submodule": covsubstats, "transition_cover_mode": covmodestats, "states_mode_model": mmode.distinct, "states_submodule_model": msub.distinct,
        "drift": len(V.drift), "known_findings_hit": len(V.known_hit),
        "regression_model_rejected": reg.violated and reg19.violated and reg21.violated,
        "samples": [{"history": stream.shape(x[1])[:300], "config": x[0].name,
                     "stdin": x[2].decode("utf-8", "replace")[:600]} for x in rnd.sample(res, min(3, len(res)))],
        "exhaustive": True,
    }, time.time() - t0, len(V.violations),
        ["section kinds and header lines are those of Env_Git (git source); diff -u / diff -r sources: see plans of C14-du",
         "a header 'names a path' if git's path string (prefix and quotes removed) occurs in the row",
         "mode change / binary are recognised by the words 'mode' / 'binary' in the header row"])
    return rc


def replay(path):
    return core.generic_replay(path)
