"""C16 - grep output keeps every hit's path, line number and code."""
import itertools
import json
import os
import random
import time

from .. import core, gitskin, lexer, tlc
from ..core import log

PID = "C16"
PATHS_ALL = ["src/co-7-fig.rs", "a b/c d.txt", "Makefile", "x.y/z_1.tar.gz", "Make-7-file", "dir=1/f:2.rs",
             # paths that continue another path after a separator character (both inside the plain-text guarantee)
             "Makefile-win.mk", "x.y/z_1.tar.gz=old.bak",
             # a blank in the path and an inner dotted segment directly followed by a separator character
             "release notes/v1.2-rc1.md",
             # characters that JSON has to escape
             "dir\\sub\\c.rs", "we\"ird name.rs"]
PLAIN_OK = {0, 1, 2, 3, 6, 7, 8}          # the unambiguous class for plain-text grep output (see the statement)
CODES = ["  let foo = 1;", "\tfoo(bar)", "foo", "x: foo - 7 = foo", "foo 世界 foo", "", "\t\tif foo { é }",
         "  \tint foo;", " \t \tfoo = foo", "    ", "foo " + "x" * 3100 + " foo", "no match here"]
RS = ["--no-gitconfig", "--syntax-theme", "none", "--grep-file-style", "35", "--grep-line-number-style", "36",
      "--grep-match-word-style", "37", "--grep-match-line-style", "45", "--grep-context-line-style", "38",
      "--grep-header-decoration-style", "none", "--grep-header-file-style", "46", "--hunk-header-style", "25 file line-number",
      "--hunk-header-decoration-style", "none", "--hunk-header-line-number-style", "28", "--hunk-header-file-style", "27",
      "--width", "200"]
SEP = {"match": ":", "context": "-", "header": "="}


def expanded(code, tabs=8):
    return code.replace("\t", " " * tabs).rstrip(" ")


def render_input(recs, fmt):
    lines = []
    prev = None
    for (p, n, t, c) in recs:
        path, code, s = PATHS_ALL[p], CODES[c], SEP[t]
        if fmt == "json":
            if prev != p:
                if prev is not None:
                    lines.append(json.dumps({"type": "end", "data": {"path": {"text": PATHS_ALL[prev]}}}))
                lines.append(json.dumps({"type": "begin", "data": {"path": {"text": path}}}))
            sub = []
            if t == "match":
                b = code.encode()
                i = b.find(b"foo")
                while i >= 0:
                    sub.append({"match": {"text": "foo"}, "start": i, "end": i + 3})
                    i = b.find(b"foo", i + 3)
            lines.append(json.dumps({"type": "match" if t == "match" else "context",
                                     "data": {"path": {"text": path}, "lines": {"text": code + "\n"},
                                              "line_number": n if n else None, "absolute_offset": 0, "submatches": sub}}))
        elif fmt == "colour":
            num = f"\x1b[32m{n}\x1b[m\x1b[36m{s}\x1b[m" if n else ""
            body = code.replace("foo", "\x1b[1;31mfoo\x1b[m") if t == "match" else code
            lines.append(f"\x1b[35m{path}\x1b[m\x1b[36m{s}\x1b[m{num}{body}")
        else:
            num = f"{n}{s}" if n else ""
            lines.append(f"{path}{s}{num}{code}")
        prev = p
    return ("\n".join(lines) + "\n").encode()


def parse_rows(out, intern, style):
    rows = []
    for b in out.split(b"\n")[:-1]:
        cells, width = gitskin.kinded_cells(b)
        text = "".join(g for g, kd, w, c in cells)
        kinds = {kd for g, kd, w, c in cells}

        def of(ks):
            return "".join(g for g, kd, w, c in cells if kd in ks)
        path = of({"grepFile", "hhFile", "grepHdrFile"})
        num = of({"grepLine", "hhLine"})
        code = of({"grepMatchLine", "grepMatch", "grepContext", "hh"})
        codecells = [(g, kd) for g, kd, w, c in cells if kd in ("grepMatchLine", "grepMatch", "grepContext", "hh")]
        em, start = [], None
        for i, (g, kd) in enumerate(codecells + [("", "")]):
            if kd == "grepMatch" and start is None:
                start = i
            if kd != "grepMatch" and start is not None:
                em.append([start, i])
                start = None
        if text == "":
            k = "blank"
        elif lexer.strip_ansi(b).strip() == b"--":
            k = "sep"
        elif style == "ripgrep" and path and not num and not (kinds & {"grepMatchLine", "grepMatch", "grepContext"}):
            k = "path"        # ripgrep style: the file header row; hits never repeat the path
        elif kinds & {"grepLine", "grepMatchLine", "grepMatch", "grepContext", "hh", "hhLine", "grepFile"}:
            k = "hit"
        else:
            k = "other"
        pid_ = PATHS_ALL.index(path) + 1 if path in PATHS_ALL else (0 if not path else 99)
        rows.append({"k": k, "p": pid_, "n": int(num) if num.strip().isdigit() else 0, "c": intern(code.rstrip(" ").encode()),
                     "m": bool(kinds & {"grepMatchLine", "grepMatch"}), "em": em})
    return rows


def run(tier):
    t0 = time.time()
    V = core.Verdict(PID)
    rnd = random.Random(core.seed())
    mc = tlc.run_tlc("MC_Grep", cfg="MC_Grep", workers=8, coverage=False, timeout=900)
    tlc.require_ok(mc, "MC_Grep")
    if mc.violated:
        V.drift.append(f"module=Grep design-level {mc.violated} violated")
    types = ["match", "context", "header"]
    # record sequences: exhaustive structure for short streams, seeded for longer ones
    seqs = []
    maxn = 3 if tier == "quick" else 4
    for n in range(1, maxn + 1):
        for ps in itertools.product((0, 1), repeat=n):
            for ts in itertools.product(types, repeat=n):
                seqs.append(list(zip(ps, ts)))
    for i in range(300 if tier == "quick" else 4000):
        r2 = random.Random(core.seed() * 9973 + i)
        n = r2.randint(4, 9)
        seqs.append([(r2.choice((0, 0, 1)), r2.choice(types)) for _ in range(n)])
    jobs = []
    for i, sq in enumerate(seqs):
        r2 = random.Random(core.seed() * 7 + i)
        fmt = ["colour", "plain", "json", "json-stdin"][i % 4]
        style = ["ripgrep", "classic"][(i // 4) % 2]
        pool = sorted(PLAIN_OK) if fmt == "plain" else list(range(len(PATHS_ALL)))
        pa, pb = r2.sample(pool, 2)
        if i % 5 == 0:
            pa, pb = r2.choice([(2, 6), (3, 7), (6, 2), (7, 3)])    # a path and its continuation, in both orders
        numbered = r2.random() < 0.8
        line = r2.randint(1, 500)
        recs = []
        for (pi, t) in sq:
            if fmt.startswith("json") and t == "header":
                t = "context"
            line += r2.choice([1, 1, 1, 2, 6])
            c = r2.randrange(len(CODES) - 1) if t == "match" else r2.randrange(len(CODES))
            if t == "match" and fmt.startswith("json") and r2.random() < 0.2:
                c = len(CODES) - 1      # a match record without submatches: what `rg --json -v` (inverted match) reports
            elif t == "match" and "foo" not in CODES[c]:
                c = 2
            if len(CODES[c]) > 3000 and not fmt.startswith("json"):
                c = 2          # (a plain or coloured line beyond --max-line-length is truncated; rg --json records are exempt)
            recs.append((pa if pi == 0 else pb, line if numbered else 0, t, c))
        jobs.append((recs, fmt, style))
    stubdir = os.path.join(core.scratch(), "c16")
    os.makedirs(stubdir, exist_ok=True)
    binpath = os.path.join(core.FIXBIN, "bin")
    if not os.path.exists(os.path.join(binpath, "git")):
        raise core.ToolError("stub git missing: run ./setup.sh")

    def one(ij):
        i, (recs, fmt, style) = ij
        data = render_input(recs, "json" if fmt.startswith("json") else fmt)
        args = RS + ["--grep-output-type", style]
        if fmt == "json-stdin":
            return core.run_delta(args, data)
        f = os.path.join(stubdir, f"in{i}.txt")
        with open(f, "wb") as fh:
            fh.write(data)
        env = {"PATH": binpath + ":/usr/bin:/bin", "STUB_OUT": f}
        cmd = ["rg", "foo"] if fmt == "json" else ["git", "grep", "-n", "foo"]
        r = core.run_delta(args + cmd, b"", env=env)
        os.unlink(f)
        return r

    res = core.pmap(one, list(enumerate(jobs)))
    intern = gitskin.Interner()
    events = []
    for i, ((recs, fmt, style), r) in enumerate(zip(jobs, res)):
        rr = []
        for (p, n, t, c) in recs:
            code = expanded(CODES[c])
            sm = []
            if fmt.startswith("json") and t == "match":
                full = CODES[c].replace("\t", " " * 8)
                j = full.find("foo")
                while j >= 0:
                    sm.append([j, j + 3])
                    j = full.find("foo", j + 3)
            rr.append({"p": p + 1, "n": n, "t": t, "c": intern(code.encode()), "sm": sm})
        events.append({"run": i, "style": style, "recs": rr, "rows": parse_rows(r.out, intern, style),
                       "code": 999 if r.timed_out else r.code, "empty": intern(b""),
                       # (the classic style draws a function-context header like a hunk header, with decoration rows: the
                       # row-kind prediction is compared for the ripgrep style and for classic streams without such lines)
                       "model": style == "ripgrep" or all(t != "header" for p, n, t, c in recs)})
    # default styles, classic output: the function-context header line (`git grep -W`: path=N=code) must name its file
    f = os.path.join(stubdir, "ctxhdr.txt")
    with open(f, "wb") as fh:
        fh.write(b"src/co-7-fig.rs=12=fn f() {\nsrc/co-7-fig.rs:13:  foo\n")
    r = core.run_delta(["--no-gitconfig", "--width", "120", "git", "grep", "-W", "-n", "foo"], b"",
                       env={"PATH": binpath + ":/usr/bin:/bin", "STUB_OUT": f})
    os.unlink(f)
    vis = [lexer.strip_ansi(b).decode("utf-8", "replace") for b in r.out.split(b"\n")]
    hdr_rows = [v for v in vis if "fn f() {" in v]
    if r.code != 0 or len(hdr_rows) != 1:
        raise core.ToolError(f"the function-context header line was not found once in the output: {vis[:6]}")
    if "src/co-7-fig.rs" not in hdr_rows[0]:
        V.violation("classic-context-header-without-path", f"the function-context header line is shown as {hdr_rows[0].strip()!r}: without its path",
                    {"run": r.to_json()})
    failed, tr = tlc.validate_trace("Trace_Grep", events)
    drifts = [x for t, v in tr.printed if t == "DRIFT" for x in (v if isinstance(v, list) else [])]
    for d in drifts[:5]:
        recs, fmt, style = jobs[d]
        V.drift.append(f"module=Grep rows written differ from the model: {fmt} as {style}: " + " ".join(f"{PATHS_ALL[p]}{SEP[t]}{n}" for p, n, t, c in recs)[:200])
    log(f"[{PID}] {len(events)} grep result streams judged by TLC (Trace_Grep), {len(failed)} rejected")
    for f in failed:
        recs, fmt, style = jobs[f["run"]]
        desc = " ".join(f"{PATHS_ALL[p]}{SEP[t]}{n}" for p, n, t, c in recs)
        V.violation(f"{fmt}:{style}:{desc[:300]}", f"{fmt} input rendered as {style}: output row {f['row']} does not match the records [{desc[:200]}]",
                    {"recs": recs, "fmt": fmt, "style": style, "run": res[f["run"]].to_json()})
    rc = V.finish()
    core.write_evidence(PID, tier, "model_checking", {
        "states": mc.distinct, "transitions": mc.generated, "monitor_states": tr.distinct, "drift_against_Grep": len(drifts), "traces_validated_against_impl": len(events),
        "evaluations": len(events), "distinct_nontrivial": len({json.dumps(j) for j in jobs}),
        "rule": f"every sequence of <= {maxn} records over 2 paths x (match, context, function-context header) plus seeded sequences "
                "of 4-9 records; line numbers present/absent with gaps 1, 2, 6 (context discontinuities); formats: coloured git grep, "
                "plain text (paths restricted to the unambiguous class), rg --json through `delta rg` and on stdin (match records with several, one and no submatches); both output styles; "
                "paths with dashes, digits, dots, spaces, '=' and ':'",
        "samples": [{"fmt": jobs[i][1], "style": jobs[i][2], "records": jobs[i][0]} for i in (0, len(jobs) // 2, len(jobs) - 1)],
        "exhaustive": False,
    }, time.time() - t0, len(V.violations),
        ["`delta git grep` / `delta rg` are driven with stub executables that print the prepared stream",
         "trailing blanks of the code are ignored (delta appends one to context lines in ripgrep style)",
         "TLC states are monitor steps; the record space is enumerated by the harness"])
    return rc


def replay(path):
    return core.generic_replay(path)
