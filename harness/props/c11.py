"""C11 - output is streamed: bounded lag behind the input, never revised."""
import json
import random
import time

from .. import core, feeder, gitskin, lexer, stream, tlc
from ..core import log

PID = "C11"


def flags(row, intern):
    p = gitskin.parse_row(row, intern)
    ks = set(p["_kinds"])
    hm = 1 if ks & {"minus", "minusEmph", "minusNon", "lnMinus"} and (ks & {"minus", "minusEmph", "minusNon"} or p["nm"]) else 0
    hp = 1 if ks & {"plus", "plusEmph", "plusNon", "wsErr"} or (p["np"] and not p["nm"] and "lnPlus" in ks) else 0
    hz = 1 if "zero" in ks or p["t"] in ("raw", "styled", "fileHdr", "hunkHdr", "commit") else 0
    if p["t"] == "zero":
        hz = 1
    return [p["bid"], hm, hp, hz, 1 if p["t"] == "blank" else 0]


def rows_flags(out, intern):
    rows, tail = lexer.split_rows(out)
    r = [flags(b, intern) for b in rows]
    if tail:
        r.append(flags(tail, intern))
    return r


def long_diff(n):
    L = lambda c, f=0, g=0, kd="": {"c": c, "f": f, "g": g, "kd": kd}
    return [L("diff", 1, 1, "add"), L("newfile"), L("index"), L("mmm", 0), L("ppp", 1), L("hh")] + [L("plus")] * n


def backpressure(V, mb=24):
    """'Memory does not grow with input size': when nobody reads delta's output, delta must stop reading its input (both are
    pipes).  A large diff is written into delta's stdin while its stdout is left unread: the writer must be left blocked with
    most of the input still in its hands.  Returns the number of bytes delta accepted before it blocked."""
    import os
    import subprocess
    import threading
    head = (b"diff --git a/alphaZ1Z.rs b/alphaZ1Z.rs\nnew file mode 100644\nindex 0000000..2222222\n--- /dev/null\n+++ b/alphaZ1Z.rs\n"
            b"@@ -0,0 +1,400000 @@\n")
    line = b"+let value_of_line = compute(some, arguments, here);  // padding padding\n"
    total = mb * 1024 * 1024
    p = subprocess.Popen([core.DELTA, "--no-gitconfig", "--paging", "never", "--width", "100"], stdin=subprocess.PIPE, stdout=subprocess.PIPE,
                         stderr=subprocess.DEVNULL, env=core.base_env(None), cwd=os.path.join(core.scratch(), "cwd"))
    sent = [0]
    done = [False]

    def writer():
        try:
            p.stdin.write(head)
            block = line * 512
            while sent[0] < total:
                p.stdin.write(block)
                p.stdin.flush()
                sent[0] += len(block)
            p.stdin.close()
        except (BrokenPipeError, ValueError, OSError):
            pass
        done[0] = True
    th = threading.Thread(target=writer, daemon=True)
    th.start()
    last, stable = -1, 0
    t_end = time.time() + 60
    while time.time() < t_end and not done[0]:
        time.sleep(0.5)
        stable = stable + 1 if sent[0] == last else 0
        last = sent[0]
        if stable >= 6:            # no progress for three seconds: the writer is blocked
            break
    accepted, finished = sent[0], done[0]
    p.kill()
    try:
        p.stdout.close()
    except OSError:
        pass
    p.wait()
    if finished and accepted >= total:
        V.violation("backpressure:input-swallowed", f"with its output left unread, delta took all {mb} MiB of input into memory instead of "
                    "leaving the producer blocked", {"accepted_bytes": accepted, "input_bytes": total})
    elif not finished and stable < 6:
        raise core.ToolError("back-pressure observation did not settle within 60 s")
    return accepted


def run(tier):
    t0 = time.time()
    V = core.Verdict(PID)
    rnd = random.Random(core.seed())
    # design level: Lag, PrefixStable, NeverRevised on Impl_Stream, B = 1 and B = 0
    mcs = []
    for cfg in (f"MC_Stream_{tier}", "MC_Stream_buf0"):
        mc = tlc.run_tlc("MC_Stream", cfg=cfg, workers=8, coverage=False, heap="8g", timeout=3400)
        tlc.require_ok(mc, cfg)
        if mc.violated:
            V.drift.append(f"module=Impl_Stream design-level {mc.violated} violated under {cfg}")
        mcs.append(mc)
    # histories: transition cover of the lag-oriented graphs (long runs of -/+ lines), per buffer size
    jobs = []
    covstats = {}
    for B, cfg in ((0, "Cover_Stream_lag0"), (1, "Cover_Stream_lag1"), (2, "Cover_Stream_lag2")):
        cov, st = stream.cover_histories(pairs=False, cfg=cfg)
        covstats[f"B={B}"] = st
        cov = [h for h in cov if any(l["c"] in ("minus", "plus") for l in h)]
        if tier == "quick":
            cov = rnd.sample(cov, min(len(cov), 500))
        for h in cov:
            jobs.append((h, B, "unified"))
        for h in rnd.sample(cov, min(len(cov), 150 if tier == "quick" else 1000)):
            jobs.append((h, B, "side-by-side"))
            jobs.append((h, 32, "unified"))
    # the I/O edges: output through a pager delta starts itself, input from a producer delta starts itself
    base = [j for j in jobs if j[2] == "unified"]
    for h, B, mode in rnd.sample(base, min(len(base), 120 if tier == "quick" else 1200)):
        jobs.append((h, B, "unified/pager"))
        jobs.append((h, B, "unified/wrap"))
    log(f"[{PID}] design level: {[m.distinct for m in mcs]} distinct states; {len(jobs)} streaming runs planned")
    intern = gitskin.Interner()
    import threading
    lock = threading.Lock()

    def args_for(B, mode):
        a = gitskin.RS_ARGS + ["--line-buffer-size", str(B)]
        if mode == "side-by-side":
            a = a + ["--side-by-side"]
        return a

    def via_of(mode):
        return mode.split("/")[1] if "/" in mode else "stdin"

    def one(job):
        h, B, mode = job
        data, texts = gitskin.concretise(h)
        lines = [t.encode() for t in texts]
        a = args_for(B, mode)
        seen, out, code, err, ok = feeder.stream(a, lines, via=via_of(mode))
        pres = []
        for k in range(1, len(lines) + 1):
            pres.append(core.run_delta(a, b"".join(x + b"\n" for x in lines[:k])).out)
        return (seen, out, code, err, ok, pres)

    res = core.pmap(one, jobs, jobs=12)
    events = []
    tool_fail = 0
    for i, ((h, B, mode), (seen, out, code, err, ok, pres)) in enumerate(zip(jobs, res)):
        if not ok or code != 0:
            if code not in (0, None) or err.strip():
                V.violation(f"exit:{stream.shape(h)[:300]}", f"delta failed while streaming [{stream.shape(h)[:200]}]: "
                            f"exit {code} {err[:200]!r}", {"history": h, "B": B, "mode": mode})
            else:
                tool_fail += 1
            continue
        with lock:
            seen_rows = []
            for k in range(1, len(h) + 1):
                part = out[:seen[k]]
                cut = part.rfind(b"\n") + 1
                seen_rows.append(rows_flags(part[:cut], intern))   # an unfinished row is not yet delivered
            pre_rows = [rows_flags(p, intern) for p in pres]
        events.append({"run": i, "B": B, "n": len(h), "cls": [l["c"] for l in h], "seen": seen_rows, "pre": pre_rows})
    if tool_fail > len(jobs) // 20:
        raise core.ToolError(f"streaming observation failed to settle in {tool_fail} runs")
    n_stream = len(jobs)
    # long input: lag and memory must not grow with input size
    n_long = 3000 if tier == "quick" else 20000
    h = long_diff(n_long)
    data, texts = gitskin.concretise(h)
    lines = [t.encode() for t in texts]
    a = args_for(32, "unified")
    seen, out, code, err, ok = feeder.stream(a, lines, timeout=120)
    if ok and code == 0:
        ks = list(range(50, len(lines), max(1, len(lines) // 12)))
        pres = core.pmap(lambda k: core.run_delta(a, b"".join(x + b"\n" for x in lines[:k])).out, ks)
        sr, pr, cls = [], [], []
        for k, p in zip(ks, pres):
            part = out[:seen[k]]
            sr.append(rows_flags(part[:part.rfind(b"\n") + 1], intern))
            pr.append(rows_flags(p, intern))
            cls.append(h[k - 1]["c"])
        events.append({"run": len(jobs), "B": 32, "n": len(ks), "cls": cls, "seen": sr, "pre": pr})
        jobs.append((h[:8], 32, f"long-{n_long}"))
    else:
        raise core.ToolError("streaming the long diff did not complete")
    accepted = backpressure(V, 24 if tier == "quick" else 96)
    log(f"[{PID}] output left unread: delta accepted {accepted} input bytes before it blocked")
    failed, r = tlc.validate_trace("Trace_Lag", events, heap="6g")
    log(f"[{PID}] {len(events)} streamed runs judged by TLC at every input line, {len(failed)} rejected")
    # an observation counts only if it reproduces: the (first twelve) rejected runs are streamed and re-run once more, one
    # at a time, and judged again (delta guesses its caller from neighbouring processes: a stub `git show` of another check
    # nearby changes how one of the prefix runs renders)
    redo = [f for f in failed if f["run"] < n_stream][:12]
    if redo:
        ev2 = []
        for f in redo:
            h, B, mode = jobs[f["run"]]
            seen, out, code, err, ok, pres = one(jobs[f["run"]])
            if not ok or code != 0:
                continue
            seen_rows = []
            for k in range(1, len(h) + 1):
                part = out[:seen[k]]
                seen_rows.append(rows_flags(part[:part.rfind(b"\n") + 1], intern))
            ev2.append({"run": f["run"], "B": B, "n": len(h), "cls": [l["c"] for l in h], "seen": seen_rows,
                        "pre": [rows_flags(p_, intern) for p_ in pres]})
        again, _ = tlc.validate_trace("Trace_Lag", ev2, heap="2g") if ev2 else ([], None)
        still = {f["run"] for f in again}
        dropped = [f for f in redo if f["run"] not in still]
        for f in dropped:
            log(f"UNCONFIRMED property={PID} (not reproduced when streamed again alone; dropped) run {f['run']}: {f['why']} after line {f['k']}")
        failed = [f for f in failed if f not in dropped]
    for f in failed:
        h, B, mode = jobs[f["run"]]
        V.violation(f"{f['why']}:{B}:{mode}:{stream.shape(h)[:300]}",
                    f"after line {f['k']} of [{stream.shape(h)[:200]}] (buffer {B}, {mode}): "
                    + ("what was written is not a prefix of the output for that input prefix" if f["why"] == "revised"
                       else "more than the open run of removed/added lines (at most buffer+1 each) is held back"),
                    {"history": h, "B": B, "mode": mode, "failure": f})
    rc = V.finish()
    core.write_evidence(PID, tier, "model_checking", {
        "states": sum(m.distinct for m in mcs), "transitions": sum(m.generated for m in mcs),
        "traces_validated_against_impl": len(events), "evaluations": sum(e["n"] for e in events),
        "distinct_nontrivial": len({json.dumps(j[0]) + str(j[1]) + j[2] for j in jobs}),
        "rule": "histories = edge cover of the abstract state graphs with long -/+ runs for buffer sizes 0,1,2 (+32), unified and "
                "side-by-side; each history is fed line by line, stdout observed when delta sleeps in read(0) on an empty pipe, "
                "and every prefix is also run as a complete input; evaluations = input prefixes judged",
        "transition_cover": covstats, "long_diff_lines": n_long, "drift": len(V.drift), "input_bytes_accepted_with_output_unread": accepted,
        "samples": [{"history": stream.shape(jobs[e["run"]][0]), "B": e["B"], "rows_seen_after_each_line": [len(s) for s in e["seen"]],
                     "rows_of_prefix_run": [len(s) for s in e["pre"]]} for e in events[:3]],
        "exhaustive": False,
    }, time.time() - t0, len(V.violations),
        ["observation relies on /proc/<pid>/task/<pid>/{stat,syscall} and FIONREAD (Linux x86_64: read = syscall 0)",
         "header rows may lag as the statement allows; prefixes ending in a header line are constrained only by the prefix law"])
    return rc


def replay(path):
    return core.generic_replay(path)
