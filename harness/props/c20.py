"""C20 - calling-process detection gives the same answer under every thread schedule."""
import json
import os
import random
import subprocess
import time

from .. import core, gitskin, tlc
from ..core import log

PID = "C20"
GREP_OUT = b"src/a.rs:10:let foo = 1;\nsrc/a.rs:11:foo bar\nsrc/b.rs:7:foo\n"
DIFF_IN = (b"diff --git a/x.rs b/x.rs\nindex 1..2 100644\n--- a/x.rs\n+++ b/x.rs\n@@ -1,2 +1,2 @@\n let a = 1;\n-let b = 2;\n"
           b"+let b = 3;\n")


def run_scheduled(mode, schedule, workdir, idx, delay=""):
    """Run delta under a stub parent that looks like `git log -p`, forcing the hook schedule."""
    binpath = os.path.join(core.FIXBIN, "bin")
    trace = os.path.join(workdir, f"trace{idx}.ndjson")
    if os.path.exists(trace):
        os.unlink(trace)
    env = core.base_env({"PATH": binpath + ":/usr/bin:/bin", "DELTA_VERIF_TRACE": trace,
                         "DELTA_VERIF_SCHEDULE": ",".join(schedule)})
    if delay:
        env["DELTA_VERIF_DELAY"] = delay.split(";")[0]
        if ";stub:" in delay:
            env["STUB_DELAY_MS"] = delay.split(";stub:")[1]
    if mode == "wrap":
        grep_file = os.path.join(workdir, "grep.txt")
        env["STUB_OUT"] = grep_file
        child = f"{core.DELTA} --no-gitconfig --paging never --line-numbers git grep -n foo"   # (--line-numbers makes Config::from ask for the calling process: the earliest query there is)
        stdin = b""
    elif mode == "wrapopt":
        # a global option of git in front of the subcommand: still a command delta launched and knows
        env["STUB_OUT"] = os.path.join(workdir, "grep.txt")
        child = f"{core.DELTA} --no-gitconfig --paging never --line-numbers git --no-pager grep -n foo"
        stdin = b""
    elif mode == "wrapother":
        # a launched command that delta does not classify (git status): nothing is published, the guess must still arrive
        env["STUB_OUT"] = os.path.join(workdir, "grep.txt")
        child = f"{core.DELTA} --no-gitconfig --paging never --line-numbers git status"
        stdin = b""
    else:
        diff_file = os.path.join(workdir, "in.diff")
        child = f"{core.DELTA} --no-gitconfig --paging never < {diff_file}"
        stdin = b""
    env["STUB_CHILD"] = child
    t0 = time.time()
    # (own session: on a time-out the whole tree stub -> delta -> stub is removed, not just the stub at its top)
    p = subprocess.Popen([os.path.join(binpath, "git"), "log", "-p"], stdin=subprocess.PIPE, env=env, cwd=workdir,
                         stdout=subprocess.PIPE, stderr=subprocess.PIPE, start_new_session=True)
    try:
        out, err = p.communicate(stdin, timeout=30)
        code, timed_out = p.returncode, False
    except subprocess.TimeoutExpired:
        import signal
        try:
            os.killpg(p.pid, signal.SIGKILL)
        except OSError:
            pass
        out, err = p.communicate()
        code, timed_out = -1, True
    events = []
    if os.path.exists(trace):
        for line in open(trace):
            try:
                events.append(json.loads(line))
            except ValueError:
                pass
        os.unlink(trace)
    return {"out": out, "err": err, "code": code, "timed_out": timed_out, "events": events, "wall": time.time() - t0}


def run(tier):
    t0 = time.time()
    V = core.Verdict(PID)
    rnd = random.Random(core.seed())
    # design level: all interleavings; safety + no query blocks forever (weak fairness)
    mcs = {}
    for mode, cfg in (("stdin", "MC_Caller"), ("wrap", "MC_Caller_wrap")):
        mc = tlc.run_tlc("MC_Caller", cfg=cfg, workers=1, coverage=False, timeout=900)
        tlc.require_ok(mc, cfg)
        if mc.violated:
            V.drift.append(f"module=Caller design-level {mc.violated} violated ({cfg})")
        mcs[mode] = mc
    reg = tlc.run_tlc("MC_Caller", cfg="MC_Caller_regression", workers=1, coverage=False, timeout=600)
    if not reg.violated:
        raise core.ToolError("MC_Caller_regression (background thread ignores the published value) was not rejected")
    workdir = os.path.join(core.scratch(), "c20")
    os.makedirs(workdir, exist_ok=True)
    with open(os.path.join(workdir, "grep.txt"), "wb") as f:
        f.write(GREP_OUT)
    with open(os.path.join(workdir, "in.diff"), "wb") as f:
        f.write(DIFF_IN)
    jobs = []
    # Only points at which a thread holds no lock can be made to wait without changing what is possible:
    # the schedule that is forced is the projection of a model interleaving onto those points (the unlock
    # action maps to the hook placed just after the mutex is released); everything else is observed.
    CONTROL = {"b_compute": "b_compute", "b_unlock": "b_released", "m_enter": "m_enter", "m_unlock": "m_released",
               "q_enter": "q_enter"}

    def project(s):
        return [CONTROL[a] for a in s if a in CONTROL]
    for mode in ("wrap", "stdin"):
        scheds = [v for t, v in mcs[mode].printed if t == "SCHEDULE"]
        scheds = [list(x) for x in sorted({tuple(project(s)) for s in scheds})]
        if mode == "wrap":
            scheds = [s for s in scheds if "m_enter" in s]
        else:
            scheds = [s for s in scheds if "m_enter" not in s]
        if tier == "quick" and len(scheds) > 80:
            scheds = rnd.sample(scheds, 80)
        jobs += [(mode, s, "") for s in scheds]
        # the same interleavings with a slow background determination (a query that arrives first has to wait
        # noticeably long for it) and with a slow main thread
        slow = [s for s in scheds if "q_enter" in s and "b_compute" in s and s.index("q_enter") < s.index("b_compute")]
        jobs += [(mode, s, "b_compute:400") for s in (slow if tier == "thorough" else rnd.sample(slow, min(len(slow), 12)))]
        jobs += [(mode, s, "q_enter:150") for s in rnd.sample(scheds, min(len(scheds), 6 if tier == "quick" else 40))]
        # the window between entering the publication and taking the mutex: the main thread dawdles there, so that the
        # background thread's critical section falls into it (the ordering points alone leave this to chance)
        window = [s for s in scheds if "m_enter" in s and "b_compute" in s and "m_released" in s
                  and s.index("m_enter") < s.index("b_compute") < s.index("m_released")]
        jobs += [(mode, s, "m_enter:300") for s in window]
        if mode == "wrap":
            # a background thread that starts late (everything it does comes after the publication), with a launched command
            # that takes its time: what the thread learns must not replace what delta knows about its own command
            jobs += [(mode, s, "b_start:150;stub:600") for s in scheds if s and s[0] == "m_enter"][:6]
        jobs.append((mode, [], ""))           # unconstrained run: the reference output
        if mode == "stdin":
            jobs += [("wrapother", s, "") for s in scheds[:: 2 if tier == "quick" else 1]] + [("wrapother", [], "")]
        else:
            jobs += [("wrapopt", s, "") for s in scheds[:: 2 if tier == "quick" else 1]] + [("wrapopt", [], "")]
    log(f"[{PID}] design level: {sum(m.distinct for m in mcs.values())} states, all interleavings safe and live; "
        f"{len(jobs)} schedules to force on the binary")
    res = core.pmap(lambda ij: run_scheduled(ij[1][0], ij[1][1], workdir, ij[0], ij[1][2]), list(enumerate(jobs)), jobs=8)
    # a run in which a hook waited out its bound, or which did not finish, is repeated once on its own: only what
    # happens again (on a machine that is not busy with the other runs) is evidence
    def foreign_guess(r):
        # the background thread searches the process table; on a busy machine it can come across a `git grep` that is not
        # this delta's caller (another run's child): then its guess carries the same name as the known command and the
        # values in the trace no longer tell guess and known command apart
        return any(e["label"] == "b_compute" and e["value"] not in ("GitLog", "", "TIMEOUT") for e in r["events"])

    def suspicious(r):
        return r["timed_out"] or r["code"] != 0 or any(e["value"] == "TIMEOUT" for e in r["events"]) or foreign_guess(r)
    for i, r in enumerate(res):
        if suspicious(r):
            res[i] = run_scheduled(jobs[i][0], jobs[i][1], workdir, 10000 + i, jobs[i][2])
    ref = {m: next(r for (mm, s, d), r in zip(jobs, res) if mm == m and not s) for m in ("wrap", "stdin", "wrapother", "wrapopt")}
    events = []
    uninformative = 0
    for i, ((mode, sched, delay), r) in enumerate(zip(jobs, res)):
        if foreign_guess(r):
            uninformative += 1      # (also when repeated alone: left out of the trace validation, never a verdict)
            continue
        events.append({"run": i, "label": "reset", "value": "stdin" if mode == "wrapother" else "wrap" if mode == "wrapopt" else mode})
        for e in r["events"]:
            if e["label"] in ("b_released", "m_released", "b_start") and e["value"] != "TIMEOUT":
                continue          # waiting points after the mutex was released: not model actions
            v = e["value"]
            v = {"GitLog": "Guess", "GitGrep": "Known", "Pending": "Pending", "": "", "TIMEOUT": "TIMEOUT"}.get(v, "Other:" + v)
            events.append({"run": i, "label": e["label"], "value": v})
        if r["timed_out"] or r["code"] != 0:
            V.violation(f"exit:{mode}:{','.join(sched)}", f"delta did not finish normally (exit {r['code']}, timed out={r['timed_out']}) "
                        f"under schedule {sched} {delay}", {"mode": mode, "schedule": sched, "delay": delay, "stderr": r["err"].decode("utf-8", "replace")[:500]})
        elif r["out"] != ref[mode]["out"]:
            V.violation(f"output:{mode}:{','.join(sched)}", f"rendering differs from the unscheduled run under schedule {sched} "
                        f"(the detected command leaked into the output)", {"mode": mode, "schedule": sched, "delay": delay})
        if sched and not r["timed_out"] and not delay:     # (a slowed-down background thread may be outlived by the process)
            # the controllable points must have happened in the scheduled order
            ptr = 0
            for e in r["events"]:
                if ptr < len(sched) and e["label"] == sched[ptr]:
                    ptr += 1
            # (the process may exit while the background thread is still on its way: its last points need not be reached)
            if ptr != len(sched) and not all(x.startswith("b_") for x in sched[ptr:]):
                V.drift.append(f"schedule not followed to the end: {sched} (reached {ptr})")
    if uninformative > len(jobs) // 4:
        raise core.ToolError(f"in {uninformative} of {len(jobs)} runs the background thread guessed a foreign `git grep`: the machine is too busy")
    failed, tr = tlc.validate_trace("Trace_Caller", events)
    log(f"[{PID}] {len(jobs)} runs, {len(events)} hook events validated against Caller by TLC: {len(failed)} runs rejected")
    for f in failed:
        mode, sched, delay = jobs[f["run"]]
        V.violation(f"trace:{f['why']}:{f['label']}:{mode}:{','.join(sched)}:{delay}",
                    f"hook trace is not a behaviour of Caller: {f['why']} at {f['label']} under schedule {sched} ({mode}{', slow thread ' + delay if delay else ''})",
                    {"mode": mode, "schedule": sched, "delay": delay, "events": res[f["run"]]["events"][:40]})
    rc = V.finish()
    core.write_evidence(PID, tier, "model_checking", {
        "states": sum(m.distinct for m in mcs.values()), "transitions": sum(m.generated for m in mcs.values()),
        "traces_validated_against_impl": len(jobs), "evaluations": len(jobs),
        "distinct_nontrivial": len({m + ",".join(s) + d for m, s, d in jobs}),
        "rule": "TLC enumerates every maximal interleaving of the hook points of the background thread, the publication of a known "
                "command and the first 2-3 queries (stdin mode and `delta git grep` mode); each is forced on the real binary through "
                "DELTA_VERIF_SCHEDULE with a stub parent `git log -p` (so the background guess differs from the known command); the "
                "recorded hook trace is validated against Caller and the rendering must equal the unscheduled run's",
        "regression_model_rejected": bool(reg.violated), "drift": len(V.drift),
        "samples": [{"mode": jobs[i][0], "schedule": jobs[i][1], "trace": [(e["label"], e["value"]) for e in res[i]["events"][:14]]}
                    for i in (0, len(jobs) // 2)],
        "exhaustive": tier == "thorough",
    }, time.time() - t0, len(V.violations),
        ["hooks (cfg dandavison_delta_verif) mark the linearization points; a schedule the code cannot follow times out in the hook "
         "after 5 s and is reported as blocked-forever", "the process tree is python -> stub `git log -p` -> delta [-> stub `git grep`]"])
    return rc


def replay(path):
    return core.generic_replay(path)
