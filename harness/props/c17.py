"""C17 - git blame output keeps code and attribution; colours follow commits."""
import json
import random
import re
import time

from .. import core, gitskin, lexer, tlc
from ..core import log

PID = "C17"
PALETTE = ["#000001", "#000002", "#000003", "#000004"]
COMMITS = {1: "ea82f2d0", 2: "^b2257cf", 3: "0123abcd", 4: "fedc9876"}
AUTHORS = {1: "Dan Davison", 2: "Ann Other 世界", 3: "Zoë", 4: "Émile de la Tour-Grande"}
# long names made of (or ending in) double-width characters: the author column cuts them by characters
AUTHORS_WIDE = {1: "山田太郎左衛門尉景元", 2: "Kangwook Lee (이강욱)", 3: "Z", 4: "田中鈴木佐藤高橋渡辺伊藤山本中村"}     # (3: a one-character name)
# (zones east and west of UTC, with and without minutes)
TIMES = {1: "2021-08-22 18:20:19 -0700", 2: "2020-01-02 03:04:05 +0100", 3: "1999-12-31 23:59:59 -0330",
         4: "2022-02-28 00:00:01 +1345"}
CODES = ["    let x = 1;", "", "\tfn main() { 世界 }", "}", " // note: (not a blame) 12)", "x" * 30,
         "// see (Bob 2020-01-01 00:00:00 +0000 12) for details", "f(a) (X 1999-12-31 23:59:59 -0100 7)",
         # code that ends in (or consists of) control characters: a trailing tab, tabs only, a form feed (page break)
         "value = 1;\t", "\t\t", "\x0c", "end of page\x0c"]
# near-identical shades: distinct in 24 bits, one and the same entry of the 256-colour palette
SHADES = ["#1d2021", "#202324", "#232627", "#262a2b"]
FORMATS = {
    "default": [],
    "commit-first": ["--blame-format", "{commit:<9} {author:<12.11} {timestamp:<25}"],
    "commit-only": ["--blame-format", "{commit:>10}", "--blame-separator-format", "|{n:>5}|"],
}
_ROW = re.compile(r"^(.*?)[│|] *(\d*) *[│|](.*)$")


def make_input(ks, renamed, AUTHORS=AUTHORS, gs=None):
    lines, meta = [], []
    for i, k in enumerate(ks):
        code = CODES[(i * 7 + k) % len(CODES)]
        num = 120 + i
        fname = " src/old name.rs" if renamed else ""
        author = AUTHORS[k].ljust(16)
        lines.append(f"{COMMITS[k]}{fname} ({author} {TIMES[k]} {num:>4}) {code}" if code else
                     f"{COMMITS[k]}{fname} ({author} {TIMES[k]} {num:>4})")
        if gs and gs[i]:
            lines[-1] = "\x1b[1;34m" + lines[-1] + "\x1b[m"        # git colours the whole line (blame.coloring)
        meta.append((num, (" " + code if code else "").replace("\t", " " * 8)))   # tabs are expanded
    return ("\n".join(lines) + "\n").encode(), meta


def run(tier):
    t0 = time.time()
    V = core.Verdict(PID)
    rnd = random.Random(core.seed())
    mc = tlc.run_tlc("MC_Blame", cfg=f"MC_Blame_{tier}", workers=4, coverage=False, timeout=3000, heap="6g")
    tlc.require_ok(mc, "MC_Blame")
    if mc.violated:
        V.drift.append(f"module=Blame design-level {mc.violated} violated")
    reg = tlc.run_tlc("MC_Blame", cfg="MC_Blame_regression", workers=2, coverage=False, timeout=600)
    if not reg.violated:
        raise core.ToolError("MC_Blame_regression was not rejected: design-level check is vacuous")
    cases = [v for t, v in mc.printed if t == "REPLAY"]
    # streams in which git coloured some lines itself: totality of the colour assignment and the neighbour laws
    mg = tlc.run_tlc("MC_Blame", cfg="MC_Blame_git", workers=4, coverage=False, timeout=1800, heap="6g")
    tlc.require_ok(mg, "MC_Blame_git")
    if mg.violated:
        V.drift.append(f"module=Blame design-level {mg.violated} violated with git-coloured lines")
    regg = tlc.run_tlc("MC_Blame", cfg="MC_Blame_git_regression", workers=2, coverage=False, timeout=600)
    if regg.violated != "GTotal":
        raise core.ToolError("MC_Blame_git_regression (the two 'impossible' arms of get_color) did not violate GTotal")
    gcases = [v for t, v in mg.printed if t == "REPLAYG"]
    cases += rnd.sample(gcases, min(len(gcases), 600 if tier == "quick" else len(gcases)))
    # deeper seeded sequences (longer than the exhaustive bound)
    for i in range(300 if tier == "quick" else 3000):
        r2 = random.Random(core.seed() * 31337 + i)
        n = r2.randint(8, 40)
        ks = []
        for _ in range(n):
            ks.append(ks[-1] if ks and r2.random() < 0.4 else r2.randint(1, 4))
        cases.append({"ks": ks, "P": r2.choice([2, 3, 4]), "cs": None})
    log(f"[{PID}] design level: {mc.distinct} distinct states, laws hold={not mc.violated}; {len(cases)} key sequences to replay")
    jobs = [(c, list(FORMATS)[i % len(FORMATS)], i % 5 == 0) for i, c in enumerate(cases)]
    # the same laws with a palette of near-identical shades and 24-bit colour switched off: lines of different commits must
    # still differ in colour
    for i, c in enumerate(rnd.sample([c for c in cases if not c.get("gs")], 80 if tier == "quick" else 800)):
        jobs.append((dict(c, pal=SHADES, tc="never"), list(FORMATS)[i % len(FORMATS)], False))
    intern = gitskin.Interner()
    pal_index = {(0, 0, i + 1): i + 1 for i in range(4)}

    def authors_of(job):
        return AUTHORS_WIDE if len(job[0]["ks"]) % 3 == 0 else AUTHORS

    def one(job):
        c, fmt, renamed = job
        data, meta = make_input(c["ks"], renamed, authors_of(job), c.get("gs"))
        args = ["--no-gitconfig", "--syntax-theme", "none", "--blame-palette", " ".join(c.get("pal", PALETTE)[:c["P"]]),
                "--blame-timestamp-output-format", "%Y-%m-%d %H:%M:%S %z", "--width", "200"] + FORMATS[fmt]
        if c.get("tc"):
            args += ["--true-color", c["tc"]]
        return data, meta, core.run_delta(args, data)

    res = core.pmap(one, jobs)
    events = []
    for i, ((c, fmt, renamed), (data, meta, r)) in enumerate(zip(jobs, res)):
        rows = []
        for b in r.out.split(b"\n")[:-1]:
            cs, pen = lexer.cells(lexer.tokens(b))
            text = "".join(x[0] for x in cs)
            bg = cs[0][2] if cs else ()
            m = _ROW.match(text)
            md, num, code = (m.group(1), m.group(2), m.group(3)) if m else (text, "", "")
            def which(table, md=md):
                # (a time must be shown in full - the zone is part of it; names may be cut by the format's precision)
                hits = [k for k, v in table.items() if (v if table is TIMES else v.strip()[:8]) in md]
                return hits[0] if len(hits) == 1 else (0 if not hits else 99)
            commit = which(COMMITS)
            shows_all = fmt != "commit-only"
            pix = pal_index
            if c.get("pal"):
                # position in the palette where the colour is exactly a palette entry, otherwise an identity of the colour
                pix = {tuple(int(h[j:j + 2], 16) for j in (1, 3, 5)): n_ + 1 for n_, h in enumerate(c["pal"])}
            ci = pix.get(tuple(bg), 0) or (100 + intern(repr(tuple(bg)).encode()) if bg else 0)
            rows.append({"c": ci if c.get("pal") else pal_index.get(tuple(bg), 0), "code": intern(code.encode()), "num": int(num) if num else 0,
                         "commit": commit, "author": which(authors_of((c, fmt, renamed))) if shows_all else commit,
                         "time": which(TIMES) if shows_all else commit})
        events.append({"run": i, "NK": 4, "P": c["P"], "ks": c["ks"], "gs": [bool(x) for x in (c.get("gs") or [False] * len(c["ks"]))],
                       "lines": [{"num": n, "code": intern(code.encode())} for n, code in meta],
                       "rows": rows, "code": 999 if r.timed_out else r.code})
    n = max(1, min(4, len(events) // 1500 + 1))
    outs = core.pmap(lambda ch: tlc.validate_trace("Trace_Blame", ch, heap="3g"), [events[i::n] for i in range(n)], jobs=n)
    failed = [f for fl, r in outs for f in fl]
    ndrift = sum(len(v) for fl, r in outs for t, v in r.printed if t == "DRIFT")
    log(f"[{PID}] {len(events)} blamed files judged by TLC (Trace_Blame), {len(failed)} rejected, {ndrift} differ from the model's colours")
    for f in failed:
        c, fmt, renamed = jobs[f["run"]]
        data, meta, r = res[f["run"]]
        V.violation(f"{f['why']}:{fmt}:{c['P']}:{c['ks']}", f"{f['why']} for key sequence {c['ks']} with a palette of {c['P']} ({fmt})",
                    {"ks": c["ks"], "P": c["P"], "format": fmt, "run": r.to_json()})
    if ndrift:
        V.drift.append(f"module=Blame {ndrift} runs show other colours than Impl predicts (laws still hold)")
    rc = V.finish()
    core.write_evidence(PID, tier, "model_checking", {
        "states": mc.distinct, "transitions": mc.generated, "traces_validated_against_impl": len(events),
        "evaluations": len(events), "distinct_nontrivial": len({json.dumps(j[0]["ks"]) + str(j[0]["P"]) + j[1] for j in jobs}),
        "rule": "every key sequence up to ReplayLen over 4 commits x palettes of 2, 3, 4 colours (TLC enumeration, laws checked on the "
                "model for sequences up to MaxLen) plus seeded sequences of 8-40 lines; boundary commits, renamed-file column, authors "
                "with spaces, accents and double-width characters, four time zones, three blame formats that include the commit",
        "regression_model_rejected": bool(reg.violated), "drift": ndrift,
        "samples": [{"ks": jobs[i][0]["ks"], "P": jobs[i][0]["P"], "format": jobs[i][1],
                     "colours_shown": [x["c"] for x in events[i]["rows"]]} for i in (10, len(jobs) // 2, len(jobs) - 1)],
        "exhaustive": True,
    }, time.time() - t0, len(V.violations),
        ["the row's background colour is read from its first cell; --blame-timestamp-output-format is fixed so that output does not "
         "depend on the current time", "metadata fields are recognised by their text (commit hash, author, timestamp)"])
    return rc


def replay(path):
    return core.generic_replay(path)
