"""C08 - git's default colouring is ignored; moved-line and raw colours are preserved."""
import json
import random
import time

from .. import core, gitskin, lexer, stream, tlc
from ..core import log

PID = "C08"

MODES = {
    "rs": gitskin.RS_ARGS,
    "rs+numbers": gitskin.RS_ARGS + ["--line-numbers"],
    "rs+side-by-side": gitskin.rs_args(160) + ["--side-by-side"],
    "defaults": ["--no-gitconfig", "--width", "100"],
    "color-only": ["--no-gitconfig", "--color-only"],
    "diff-highlight": ["--no-gitconfig", "--diff-highlight", "--width", "100"],
    "diff-so-fancy+navigate": ["--no-gitconfig", "--diff-so-fancy", "--navigate", "--width", "100"],
    "raw-headers": ["--no-gitconfig", "--file-style", "raw", "--hunk-header-style", "raw", "--width", "100"],
    # a lowered maximum line length: hunk headers (coloured or not) are exempt, long code lines are cut alike
    "rs+maxlen100": gitskin.RS_ARGS + ["--max-line-length", "100"],
}

MOVED = ["1;35", "1;36", "1;34", "1;33", "2;35", "3;36", "38;5;208", "38;2;10;20;30;48;5;17", "1;4;9;38;5;99", "7;35",
         "35", "36;1", "48;5;52;38;5;231", "5;34", "8;33", "1;2;3;4;5;7;9;36",
         # bright colours (aixterm codes) as foreground and as background
         "95", "30;103", "97;100", "1;93;104", "91;107", "90;101", "96;102", "94;105", "92;106", "30;47", "37;40",
         # attributes only, no colour (git's --color-moved=dimmed-zebra defaults; color.diff.oldMoved = reverse)
         "2", "2;3", "7", "1", "3", "4;9"]


_ATTR = {1: "bold", 2: "dim", 3: "italic", 4: "ul", 5: "blink", 7: "reverse", 8: "hidden", 9: "strike"}
_NAMES = ["black", "red", "green", "yellow", "blue", "magenta", "cyan", "white"]


def sgr_to_style(sgr):
    """The style string (git's colour language) that describes an SGR parameter list: attributes, foreground, background."""
    ps = [int(x) for x in sgr.split(";")]
    attrs, fg, bg = [], None, None
    i = 0
    while i < len(ps):
        p = ps[i]
        if p in _ATTR:
            attrs.append(_ATTR[p])
        elif 30 <= p <= 37:
            fg = _NAMES[p - 30]
        elif 90 <= p <= 97:
            fg = "bright" + _NAMES[p - 90]
        elif 40 <= p <= 47:
            bg = _NAMES[p - 40]
        elif 100 <= p <= 107:
            bg = "bright" + _NAMES[p - 100]
        elif p in (38, 48):
            if ps[i + 1] == 5:
                v, i = str(ps[i + 2]), i + 2
            else:
                v, i = '"#%02x%02x%02x"' % tuple(ps[i + 2:i + 5]), i + 4
            if p == 38:
                fg = v
            else:
                bg = v
        i += 1
    return " ".join(attrs + [fg or "normal"] + ([bg] if bg else []))


def cell_rec(cs):
    return [[ord(g[0]) if len(g) == 1 else ord(g[0]) + 1000000, list(fg), list(bg), sorted(at)] for g, fg, bg, at, lk in cs]


def passthrough(rows, lines, intern):
    """For each output row: the input line (1-based, 0 none) whose bytes it starts with (longest
    non-empty match) and the id of the remainder (decoration)."""
    ks, rs = [], []
    for b in rows:
        best = 0
        for k, ln in enumerate(lines):
            if ln and b.startswith(ln) and (best == 0 or len(ln) > len(lines[best - 1])):
                best = k + 1
        ks.append(best)
        rs.append(intern(b[len(lines[best - 1]):]) if best else 0)
    return ks, rs


def run(tier):
    t0 = time.time()
    V = core.Verdict(PID)
    rnd = random.Random(core.seed())
    cov, covstats = stream.cover_histories(pairs=False)
    # stratified by the kinds of section a history contains (so that mode-only, empty, binary ... sections, which
    # have no hunk, are always present next to histories with hunks)
    by_kind = {}
    for h in cov:
        if len(h) < 2:
            continue
        key = tuple(sorted({l["kd"] for l in h if l.get("kd")}))
        by_kind.setdefault(key, []).append(h)
    per = max(3, (500 if tier == "quick" else 6000) // max(1, len(by_kind)))
    hists = []
    for key in sorted(by_kind):
        hists += rnd.sample(by_kind[key], min(per, len(by_kind[key])))
    jobs = []
    for i, h in enumerate(hists):
        for m in (list(MODES) if tier == "thorough" else [list(MODES)[i % len(MODES)], list(MODES)[(i + 3) % len(MODES)]]):
            jobs.append((h, m, 1 + (i % 4)))
        if i % 6 == 0:
            jobs.append((h, list(MODES)[(i // 6) % len(MODES)], 5))
        if i % 6 == 3:
            jobs.append((h, list(MODES)[(i // 6) % len(MODES)], 6))
        if i % 6 in (1, 4):     # coloured as `git diff --ws-error-highlight=all` colours: context lines carry resets, too
            jobs.append((h, list(MODES)[(i // 6) % len(MODES)], 7))
        if i % 6 in (2, 5):     # lines beyond the maximum length with a double-width character at the limit
            jobs.append((h, "rs+maxlen100", 8))
    intern = gitskin.Interner()

    def ws_payload(k, c):
        return f"tokZ{k}Z w{k % 3}" + ("  " if k % 5 == 0 else "") + ("\t" if k % 7 == 0 else "")

    def bad_utf8_payload(k, c):
        # (a lone surrogate stands for a byte that is not valid UTF-8: Latin-1 text in a diff)
        return f"tokZ{k}Z caf\udce9 w{k % 3}" if k % 2 == 0 else f"tokZ{k}Z w{k % 3}"
    def ctrl_payload(k, c):
        # C0 control characters inside the text (nroff overstrike, bell, vertical tab, form feed)
        return [f"tokZ{k}Z N\x08NA\x08AM\x08M w{k % 3}", f"tokZ{k}Z bell\x07 vt\x0b ff\x0c end", f"tokZ{k}Z w{k % 3}"][k % 3]
    def wide_payload(k, c):
        # the cut at --max-line-length 100 falls before / inside / after a double-width character; trailing blanks (coloured apart)
        return f"tokZ{k}Z " + "a" * (k % 3) + "\u4e16\u754c" * 50 + " end" + ("  " if k % 2 == 0 else "")
    enc = lambda t: t.encode("utf-8", "surrogateescape")

    def one(job):
        h, m, variant = job
        if variant in (5, 6):      # hunk lines that are not valid UTF-8 / that contain control characters
            texts = gitskin.concretise_texts(h, payload=bad_utf8_payload if variant == 5 else ctrl_payload)
            data = b"".join(enc(t) + b"\n" for t in texts)
        elif variant == 8:
            data, texts = gitskin.concretise(h, payload=wide_payload, skin={"frag": "long"})
        else:
            data, texts = gitskin.concretise(h, payload=ws_payload, skin={"frag": "long"} if m == "rs+maxlen100" else None)
        ctexts = gitskin.colourise(h, texts, variant)
        if variant == 3 and m != "color-only":
            # files with CRLF line endings: git puts the reset between CR and LF; the plain input has plain CRLF
            texts = [t + "\r" for t in texts]
            ctexts = [(t[:-len(R)] + "\r" + R2) if t.endswith(R) else t + "\r"
                      for t in ctexts for R in ["\x1b[0m"] for R2 in [["\x1b[0m", "\x1b[m", "\x1b[0m\x1b[m"][len(t) % 3]]]
            data = "".join(t + "\n" for t in texts).encode()
        cdata = b"".join(enc(t) + b"\n" for t in ctexts)
        return texts, ctexts, core.run_delta(MODES[m], data), core.run_delta(MODES[m], cdata)

    res = core.pmap(one, jobs)
    events = []
    sevents, smeta = [], []
    for i, ((h, m, variant), (texts, ctexts, rp, rc_)) in enumerate(zip(jobs, res)):
        bp, bc = rp.out.split(b"\n"), rc_.out.split(b"\n")
        rows_p = [intern(b) for b in bp]
        rows_c = [intern(b) for b in bc]
        kx, rx = passthrough(bp, [stream.normalise_line(t.encode("utf-8", "surrogateescape")) for t in texts], intern)
        ky, ry = passthrough(bc, [stream.normalise_line(t.encode("utf-8", "surrogateescape")) for t in ctexts], intern)
        events.append({"run": i, "kind": "equalp", "x": rows_p, "y": rows_c, "kx": kx, "rx": rx, "ky": ky, "ry": ry,
                       "z": [], "ex": []})
        if m == "rs" and variant not in (5, 6, 8):   # "identical" must not mean "identically wrong": the coloured run is also judged by Obs_Stream
            # (a CR at the end of a line is dropped by delta - permitted - so it is not part of the text expected)
            ev, rows = stream.run_event(len(sevents), h, [t[:-1] if t.endswith("\r") else t for t in texts], rc_, {"keep": False, "tabs": 8, "colorOnly": False,
                                                                      "buf": 32, "hhFile": True, "rel": False, "wd": False, "commitRaw": False}, intern=intern, skin={})
            # a line that is passed through carries the bytes (colours included) of the coloured input
            for ln, t in zip(ev["lines"], ctexts):
                ln["bid"] = intern(stream.normalise_line(t.encode("utf-8", "surrogateescape")))
            sevents.append(ev)
            smeta.append(i)
    # moved lines: one hunk per rendition, changed lines in non-default colours
    L = lambda c, f=0, g=0, kd="": {"c": c, "f": f, "g": g, "kd": kd}
    mjobs = []
    for keep in (False, True):
        for sgr in MOVED if tier == "thorough" else MOVED[::2] + MOVED[1::4] + MOVED[-6:]:
            for cls in ("minus", "plus"):
                mjobs.append((sgr, cls, keep, None))
    # map-styles: the moved line is shown in the style assigned to its input colours (both colour depths)
    for i, sgr in enumerate(MOVED):
        for tc in ("always", "never"):
            mjobs.append((sgr, ["minus", "plus"][i % 2], False, tc))

    def moved_one(job):
        sgr, cls, keep, mapped = job
        h = [L("diff", 1, 1, "mod"), L("index"), L("mmm", 1), L("ppp", 1), L("hh"), L("zero"), L(cls), L("zero")]
        data, texts = gitskin.concretise(h)
        ctexts = gitskin.colourise(h, texts, 0)
        ctexts[6] = f"\x1b[{sgr}m{texts[6]}\x1b[m"
        args = gitskin.RS_ARGS + (["--keep-plus-minus-markers"] if keep else [])
        if mapped:
            args = args + ["--true-color", mapped, "--map-styles", f"{sgr_to_style(sgr)} => ul 51 19"]
        r = core.run_delta(args, "".join(t + "\n" for t in ctexts).encode())
        return ctexts[6], r

    mres = core.pmap(moved_one, mjobs)
    for j, ((sgr, cls, keep, mapped), (cline, r)) in enumerate(zip(mjobs, mres)):
        rows = r.out.split(b"\n")
        want, _ = lexer.cells(lexer.tokens(cline.encode()))
        want = want[1:]     # the marker column is delta's to paint (re-inserted when markers are kept)
        if mapped:          # every character in the style the map assigns: underline, 51 on 19
            want = [(g, (51,), (19,), frozenset({"ul"}), lk) for g, fg, bg, at, lk in want]
        # the row that shows the moved line: the one containing its payload token
        hit = [b for b in rows if b"tokZ7Z" in b]
        got = lexer.cells(lexer.tokens(hit[0]))[0] if len(hit) == 1 else []
        if keep:
            got = got[1:]
        events.append({"run": len(jobs) + j, "kind": "cells", "x": cell_rec(want), "y": cell_rec(got), "z": [], "ex": []})
    failed, tr = tlc.validate_trace("Trace_Rel", events)
    sfailed, ns = stream.validate_runs(sevents)
    log(f"[{PID}] {len(jobs)} plain/coloured pairs + {len(mjobs)} moved-line renditions judged by TLC: {len(failed)} rejected; "
        f"{ns} coloured runs judged by Obs_Stream: {len(sfailed)} rejected")
    for f in failed:
        if f["run"] < len(jobs):
            h, m, variant = jobs[f["run"]]
            texts, ctexts, rp, rc_ = res[f["run"]]
            V.violation(f"coloured:{m}:{variant}:{stream.shape(h)[:300]}",
                        f"output differs between plain and git-coloured input (colouring variant {variant}) at row {f['at']} in "
                        f"mode {m} for [{stream.shape(h)[:200]}]", {"history": h, "mode": m, "run": rc_.to_json(), "also": [rp.to_json()], "failure": f})
        else:
            sgr, cls, keep, mapped = mjobs[f["run"] - len(jobs)]
            V.violation(f"moved:{sgr}:{cls}:{keep}:{mapped}", f"{cls} line coloured ESC[{sgr}m by git is not shown in "
                        + (f"the style map-styles assigns to '{sgr_to_style(sgr)}' (true-color {mapped}) " if mapped else "exactly those colours ")
                        + f"(first difference at character {f['at']}, markers kept={keep})",
                        {"sgr": sgr, "cls": cls, "run": mres[f['run'] - len(jobs)][1].to_json()})
    for f in sfailed:
        h, m, variant = jobs[smeta[f["run"]]]
        V.violation(f"rows:{f['wt']}:{f['gt']}:{stream.shape(h)[:300]}", f"coloured input [{stream.shape(h)[:200]}] rejected by "
                    f"Obs_Stream: wanted {f['wt']} got {f['gt']}", {"history": h, "failure": f})
    rc = V.finish()
    core.write_evidence(PID, tier, "model_checking", {
        "states": tr.distinct, "transitions": tr.generated,
        "traces_validated_against_impl": len(events) + ns, "evaluations": 2 * len(jobs) + len(mjobs),
        "distinct_nontrivial": len({json.dumps(j[0]) + j[1] + str(j[2]) for j in jobs}) + len(mjobs),
        "rule": "histories with hunk lines from the transition cover x modes x git colourings (per-line / per-marker, ESC[m / "
                "ESC[0m, whitespace-error highlighting on added lines and, as with --ws-error-highlight=all, on every hunk line; lines beyond "
                "--max-line-length with a double-width character at the cut): plain and coloured runs compared row by row by TLC (rows that pass an input "
                "line through must equal the coloured input line instead); moved-line renditions x {minus, plus} x markers kept/removed: "
                "per-character (fg, bg, attributes) compared by TLC",
        "modes": sorted(MODES), "moved_renditions": MOVED, "transition_cover": covstats,
        "samples": [{"history": stream.shape(jobs[i][0]), "mode": jobs[i][1], "coloured_input": res[i][1][:8]} for i in (0, 1)],
        "exhaustive": False,
    }, time.time() - t0, len(V.violations),
        ["git's default palette only (red/green/bold/cyan/yellow, red background for whitespace errors)",
         "map-styles is not exercised yet"])
    return rc


def replay(path):
    return core.generic_replay(path)
