"""C15 - syntax highlighting only recolours foregrounds, by the file's language."""
import json
import os
import random
import time

from .. import core, gitskin, lexer, stream, tlc
from ..core import log

PID = "C15"
DARK = ["Monokai Extended", "Dracula", "Nord", "zenburn", "OneHalfDark", "gruvbox-dark", "ansi", "base16"]
LIGHT = ["GitHub", "OneHalfLight", "Solarized (light)", "gruvbox-light"]
CODE = {
    "rs": ["fn main() {", "    let x: u32 = 42; // comment", "    println!(\"{}\", \"str\");", "}", "struct S<'a> { f: &'a str }"],
    "py": ["def f(x):", "    return [i for i in range(10)]  # c", "class A(B): pass", "    s = 'str' + \"x\""],
    "mk": ["all: a.o b.o", "\t$(CC) -o $@ $^", "CFLAGS += -O2 # opt", ".PHONY: clean"],
    "txt": ["plain words here", "more, text; 123", "", "tabs\there"],
    "toml": ["[package]", "name = \"delta\" # comment", "version = \"1.2.3\"", "[[bin]]", "edition = 2021"],
    "cmake": ["cmake_minimum_required(VERSION 3.10)", "project(demo C CXX) # c", "set(SRC main.c util.c)", "add_executable(demo ${SRC})"],
}
# (name, another name of the same kind) -> language
RENAMES = [("main.rs", "lib.rs", "rs"), ("a/b/tool.py", "x.py", "py"), ("Makefile", "sub/Makefile", "mk"),
           ("notes.txt", "README.txt", "txt"), ("noext", "other_noext", "txt"),
           # names that are known as whole names although they have an extension (eight entries: coprime with the three kinds of job)
           ("Makefile.am", "Makefile", "mk"), ("Cargo.lock", "conf.toml", "toml"), ("CMakeLists.txt", "x.cmake", "cmake")]
# styles: removed lines without 'syntax' on a recognisable background, added and unchanged with
STYLES = ["--minus-style", "bold red 52", "--minus-emph-style", "italic red 88", "--plus-style", "syntax 22",
          "--plus-emph-style", "syntax ul 28", "--zero-style", "syntax", "--line-numbers-minus-style", "dim 196",
          "--hunk-header-style", "syntax bold", "--file-style", "yellow"]
NOSYN = [[52], [88]]
MODES = {"unified": [], "numbers": ["--line-numbers"], "side-by-side": ["--side-by-side", "--width", "140"]}


def make_diff(name, lang, r2):
    lines = CODE[lang]
    body = []
    for i in range(r2.randint(3, 7)):
        c = r2.choice(" -+")
        body.append(c + r2.choice(lines))
    nm = sum(l[0] in " -" for l in body)
    np_ = sum(l[0] in " +" for l in body)
    return (f"diff --git a/{name} b/{name}\nindex 1..2 100644\n--- a/{name}\n+++ b/{name}\n@@ -3,{nm} +3,{np_} @@ {r2.choice(lines)}\n"
            + "\n".join(body) + "\n").encode()


def trailing_blanks(d):
    # (hunk lines only: the "--- a/name" / "+++ b/name" lines before the first hunk header stay as they are)
    lines = d.split(b"\n")
    first = next((k for k, l in enumerate(lines) if l.startswith(b"@@")), len(lines))
    return b"\n".join((l + b" " * (3 + (k % 4)) if k > first and l[:1] in (b"+", b"-", b" ") and 18 <= len(l) <= 30 else l)
                      for k, l in enumerate(lines))


def cell_rec(row):
    cs, pen = lexer.cells(lexer.tokens(row))
    return [[ord(g[0]), list(fg), list(bg), sorted(at)] for g, fg, bg, at, lk in cs]


# ---------------------------------------------------------------------------------------------------
# the stateful half: which language colours a hunk line (Impl_Stream fields syn / hl / sy)
import re

SYN_PAYLOAD = lambda k, c: f'FROM tokZ{k}Z = "s" # if (x) $(CC) // let def'
SYN_ARGS = ["--no-gitconfig", "--true-color", "always", "--dark", "--syntax-theme", "Monokai Extended", "--width", "120",
            "--minus-style", "syntax 52", "--minus-emph-style", "syntax 88", "--minus-non-emph-style", "syntax 52",
            "--plus-style", "syntax 22", "--plus-emph-style", "syntax 28", "--plus-non-emph-style", "syntax 22",
            "--zero-style", "syntax", "--file-style", "yellow", "--hunk-header-style", "omit"]
# file ids -> names: different extensions; whole-name languages without extension; whole name vs extension;
# the same language twice; no extension at all; a directory that looks like an extension; a four-byte name
NAME_SKINS = {
    "rs-py": {"names": {1: "alphaZ1Z.rs", 2: "betaZ2Z.py", 3: "gammaZ3Z.c"}},
    "Makefile-Dockerfile": {"names": {1: "Makefile", 2: "Dockerfile", 3: "Rakefile"}},
    "CMakeLists-txt": {"names": {1: "CMakeLists.txt", 2: "notesZ2Z.txt", 3: "gammaZ3Z.rs"}},
    "rs-RS": {"names": {1: "alphaZ1Z.rs", 2: "betaZ2Z.rs", 3: "gammaZ3Z.py"}},
    "noext-py": {"names": {1: "alphaZ1Znoext", 2: "betaZ2Z.py", 3: "gammaZ3Z.js"}},
    "dir-like-ext": {"names": {1: "alphaZ1Z.rs", 2: "betaZ2Z.js", 3: "gammaZ3Z.c"}, "dir": "src.py/pkg.rb"},
    "short": {"names": {1: "Make", 2: "betaZ2Z.mk", 3: "gammaZ3Z.c"}},
}
_TOK = re.compile(r"tokZ(\d+)Z")


def syn_signature(row):
    """(k, signature) of an output row that shows a payload line, else None.  The signature is the
    sequence of (foreground, text) runs over the payload's cells, the line's own number masked."""
    cs, pen = lexer.cells(lexer.tokens(row))
    text = "".join(c[0] for c in cs)
    i = text.find("FROM tokZ")
    m = _TOK.search(text)
    if i < 0 or not m:
        return None
    runs = []
    for g, fg, bg, at, lk in cs[i:]:
        if runs and runs[-1][0] == tuple(fg):
            runs[-1][1] += g
        else:
            runs.append([tuple(fg), g])
    sig = tuple((fg, _TOK.sub("tokZ#Z", t).rstrip()) for fg, t in runs)
    sig = tuple(x for x in sig if x[1] != "")
    return int(m.group(1)), sig


def syn_reference(name):
    """How a one-file diff of `name` colours the payload (added, removed and unchanged line)."""
    pay = SYN_PAYLOAD(7, "")
    head = f"diff --git a/{name} b/{name}\nindex 1..2 100644\n--- a/{name}\n+++ b/{name}\n@@ -1,2 +1,2 @@\n" if name else \
           "diff --git a/zzzZ.unknownext b/zzzZ.unknownext\nindex 1..2 100644\n--- a/zzzZ.unknownext\n+++ b/zzzZ.unknownext\n@@ -1,2 +1,2 @@\n"
    r = core.run_delta(SYN_ARGS, (head + f" {pay}\n-{pay}\n+{pay}\n").encode(), prefix_args=("--paging", "never"))
    sigs = [x[1] for x in map(syn_signature, r.out.split(b"\n")) if x]
    if len(sigs) != 3 or len(set(sigs)) != 1:
        raise core.ToolError(f"reference colouring for {name!r} is not line-local: {sigs}")
    return sigs[0]


def stream_part(tier, V, rnd):
    design = {}
    for cfg, mod in (("MC_Stream_" + tier, "MC_Stream"), ("MC_DiffU_bare", "MC_DiffU")):
        mc = tlc.run_tlc(mod, cfg=cfg, workers=8, coverage=False, heap="8g", timeout=3400)
        tlc.require_ok(mc, cfg)
        if mc.violated:
            V.drift.append(f"module=Impl_Stream design-level invariant {mc.violated} violated in {cfg}")
        design[cfg] = mc.distinct
    reg = tlc.run_tlc("MC_Stream", cfg="MC_Stream_noD20", workers=4, coverage=False, timeout=600)
    if reg.violated != "LanguageByName":
        raise core.ToolError("regression config MC_Stream_noD20 did not violate LanguageByName: design-level check is vacuous")
    hists = []
    for cfg, mod in (("Cover_Stream", "Cover_Stream"), ("Cover_Stream_sub", "Cover_Stream"), ("Cover_DiffU_bare", "Cover_DiffU"),
                     ("Cover_DiffU_titled", "Cover_DiffU")):
        h, st = stream.cover_histories(pairs=False, cfg=cfg, module=mod)
        hists += [x for x in h if any(l["c"] in ("minus", "plus", "zero") for l in x)]
    per = 1500 if tier == "quick" else len(hists)
    jobs = []
    refs = {}
    for name, skin in NAME_SKINS.items():
        refs[name] = {0: syn_reference("")}
        for fid, nm in skin["names"].items():
            refs[name][fid] = syn_reference((skin.get("dir") + "/" if skin.get("dir") else "") + nm)
        for h in (hists if name == "rs-py" else rnd.sample(hists, min(per, len(hists)))):
            jobs.append((name, h))

    def one(job):
        name, h = job
        data, texts = gitskin.concretise(h, payload=SYN_PAYLOAD, skin=NAME_SKINS[name])
        r = core.run_delta(SYN_ARGS, data)
        obs = []
        for row in r.out.split(b"\n"):
            x = syn_signature(row)
            # (only lines whose text is the payload itself: a look-alike line "--- x" carries it after "-- ")
            if x and 1 <= x[0] <= len(h) and h[x[0] - 1]["c"] in ("minus", "plus", "zero"):
                obs.append({"k": x[0], "hl": [fid for fid, sig in sorted(refs[name].items()) if sig == x[1]]})
        return data, r, obs

    res = core.pmap(one, jobs)
    events = []
    for i, ((name, h), (data, r, obs)) in enumerate(zip(jobs, res)):
        if r.code != 0:
            V.violation(f"exit:{name}:{stream.shape(h)[:200]}", f"delta exited {r.code} on [{stream.shape(h)[:160]}]", {"run": r.to_json()})
            continue
        events.append({"run": i, "lines": [{"c": l["c"], "f": l["f"], "g": l["g"], "kd": l.get("kd", "")} for l in h], "obs": obs})
    n_sh = max(1, min(6, len(events) // 2000 + 1))
    outs = core.pmap(lambda ch: tlc.validate_trace("Trace_Syntax", ch, heap="3g"), [events[i::n_sh] for i in range(n_sh)], jobs=n_sh)
    failed = [f for fl, r in outs for f in fl]
    drifts = [x for fl, r in outs for t, v in r.printed if t == "DRIFT" for x in (v if isinstance(v, list) else [])]
    unseen = [f for f in failed if f["why"] != "language"]
    if len(unseen) > len(events) // 50:
        raise core.ToolError(f"{len(unseen)} runs in which a hunk line was not located in the output")
    for d in drifts[:5]:
        V.drift.append(f"module=Impl_Stream language of a hunk line: names={jobs[d][0]} history=[{stream.shape(jobs[d][1])[:160]}]")
    log(f"[{PID}] {len(events)} runs judged by TLC (Trace_Syntax): {len(failed) - len(unseen)} rejected, {len(drifts)} drift")
    for f in failed:
        if f["why"] != "language":
            continue
        name, h = jobs[f["run"]]
        data, r, obs = res[f["run"]]
        got = next((o["hl"] for o in obs if o["k"] == f["k"]), None)
        V.violation(f"language:{name}:{stream.shape(h)[:300]}",
                    f"language: input line {f['k']} of [{stream.shape(h)[:160]}] (names {NAME_SKINS[name]['names']}) is coloured in the "
                    f"language of file id(s) {got}, its own file is {f['want']}", {"history": h, "names": name, "run": r.to_json()})
    return {"design_states": design, "stream_runs": len(events), "stream_histories": len(hists), "regression_model_rejected": reg.violated,
            "name_skins": {k: v["names"] for k, v in NAME_SKINS.items()}, "drift": len(drifts)}


# ---------------------------------------------------------------------------------------------------
# two styles that differ in nothing but 'syntax' / 'normal' meeting inside one line: the output cannot tell them apart
# by background or attributes, so a third run marks the style under test with an attribute (underline)
TWIN_DIFF = (b"diff --git a/src/twin.rs b/src/twin.rs\nindex 1..2 100644\n--- a/src/twin.rs\n+++ b/src/twin.rs\n@@ -3,4 +3,4 @@ fn f()\n"
             b" fn keep() { let s = \"same\"; } // unchanged comment\n"
             b"-    let x = \"alpha beta\"; // first comment here\n"
             b"-    call(one, two); /* block comment old */\n"
             b"+    let x = \"alpha gamma\"; // second comment here\n"
             b"+    call(one, three); /* block comment new */\n"
             b" }\n")
TWINS = {
    # name: (options, option that carries the style under test, its value, the same with the marker)
    "plus-emph": (["--plus-style", 'syntax "#003300"'], "--plus-emph-style", 'normal "#003300"', 'normal ul "#003300"'),
    "plus-non-emph": (["--plus-style", 'syntax "#003300"', "--plus-emph-style", 'syntax "#006000"'], "--plus-non-emph-style",
                      'normal "#003300"', 'normal ul "#003300"'),
    "minus-emph": (["--minus-style", 'syntax "#3f0001"'], "--minus-emph-style", 'normal "#3f0001"', 'normal ul "#3f0001"'),
    "minus-non-emph": (["--minus-style", 'syntax "#3f0001"', "--minus-emph-style", 'syntax "#901011"'], "--minus-non-emph-style",
                       'normal "#3f0001"', 'normal ul "#3f0001"'),
    # only the emph style given (side-by-side changes the built-in default of the line style)
    "minus-emph-alone": ([], "--minus-emph-style", 'normal "#900000"', 'normal ul "#900000"'),
    "plus-emph-alone": ([], "--plus-emph-style", 'normal "#006000"', 'normal ul "#006000"'),
}


LIMIT_DIFF = (b"diff --git a/src/lim.rs b/src/lim.rs\nindex 1..2 100644\n--- a/src/lim.rs\n+++ b/src/lim.rs\n@@ -1,3 +1,3 @@ fn f()\n"
              b" let keep = 1; // c      \n-let old_name = 10;        \n+let new_name = 20; // x     \n let tail = \"s\";   \n")


def limit_part(tier, V):
    """Lines that reach --max-syntax-highlighting-length and go on with nothing but blanks; a line of the default limit's length."""
    long_code = b"+let v = [" + b"1, " * 128 + b"2];" + b" " * 12 + b"\n"          # ~ 400 columns of code, then blanks
    jobs = [(24, LIMIT_DIFF), (20, LIMIT_DIFF), (18, LIMIT_DIFF), (400, LIMIT_DIFF.replace(b"+let new_name = 20; // x     \n", long_code))]
    events = []
    for i, (lim, d) in enumerate(jobs):
        base = ["--no-gitconfig", "--true-color", "always", "--dark", "--width", "500", "--max-syntax-highlighting-length", str(lim)]
        x = core.run_delta(base + ["--syntax-theme", "Monokai Extended"], d)
        y = core.run_delta(base + ["--syntax-theme", "none"], d)
        cx = [c for row in x.out.split(b"\n") for c in cell_rec(row) + [[10, [], [], []]]]
        cy = [c for row in y.out.split(b"\n") for c in cell_rec(row) + [[10, [], [], []]]]
        events.append({"run": i, "kind": "fgonly", "x": cx, "y": cy, "nosyn": [], "strict": False, "z": [], "ex": []})
    failed, tr = tlc.validate_trace("Trace_Rel", events, heap="4g")
    for f in failed:
        V.violation(f"highlighting-limit:{jobs[f['run']][0]}", f"with --max-syntax-highlighting-length {jobs[f['run']][0]} the rendering under a theme "
                    f"differs from the one without highlighting in more than foreground colours (cell {f['at']})", {"limit": jobs[f["run"]][0]})
    return len(events)


# ---------------------------------------------------------------------------------------------------
# `git show rev:path`: the file is shown, highlighted in the language of the path's name (ShowFile)
SF_CODE = ["let alpha = 1;", "fn main() {", "\tindented(\"tab\");", "", "// comment \u00e9 \u4e16\u754c", "    return x + 1  ", "}",
           "def f(x): return [y for y in x if y]  # py"]
SF_INNER = ["index 1..2 100644", "new file mode 100644", "deleted file mode 100644", "rename from x", "rename to y", "copy from x",
            "similarity index 90%", "+++ b/x", "-removed", "+added", " context", "\\ No newline at end of file", "<<<<<<< HEAD",
            "=======", "||||||| base", ">>>>>>> x", "Subproject commit abcdef1",
            "ea82f2d0 (Dan Davison 2021-08-22 18:20:19 -0700 120) code", "src/x.rs:12:foo", " src/x.rs | 3 ++-", "Merge: 123 456",
            "Author: x", "Date: y", "* commit abcdef1234567", "| | diff --git a/x b/x"]
SF_MARKER = ["commit abcdef1234567", "diff --git a/x b/x", "@@ -1 +1 @@", "--- a/x", "old mode 100644", "new mode 100755",
             "Only in a: b", "Submodule sub 1234567..89abcde:", "diff -u a b"]
SF_NAMES = [("src/alpha.rs", "lib/deep/other.rs"), ("Makefile", "sub/Makefile"), ("notes.txt", "README.txt"), ("tool.py", "x/y.py"),
            ("noext", "bin/other")]
SF_ARGS = ["--no-gitconfig", "--true-color", "always", "--dark", "--width", "120", "--zero-style", 'syntax "#010203"']


def showfile_part(tier, V, pid=None, callers=("showfile",)):
    """callers: which of the three callers are replayed - C15 takes the file view, C04 the two callers without a file name
    (there the text must pass through)."""
    pid = pid or PID
    mc = tlc.run_tlc("MC_ShowFile", cfg="MC_ShowFile", workers=2, coverage=False, timeout=600)
    tlc.require_ok(mc, "MC_ShowFile")
    if mc.violated:
        V.drift.append(f"module=ShowFile design-level {mc.violated} violated")
    reg = tlc.run_tlc("MC_ShowFile", cfg="MC_ShowFile_regression", workers=2, coverage=False, timeout=600)
    if reg.violated != "Laws":
        raise core.ToolError("regression config MC_ShowFile_regression was not rejected: the design-level check is vacuous")
    gen = tlc.run_tlc("MC_ShowFile", cfg="MC_ShowFile_gen" if tier == "quick" else "MC_ShowFile_gen_thorough", workers=1, coverage=False,
                      timeout=900)
    tlc.require_ok(gen, "MC_ShowFile generation")
    seqs = [v for t, v in gen.printed if t == "REPLAY" and v["caller"] in callers]
    if len(seqs) < 100:
        raise core.ToolError(f"only {len(seqs)} class sequences from MC_ShowFile")
    binpath = os.path.join(core.FIXBIN, "bin")
    if not os.path.exists(os.path.join(binpath, "git")):
        raise core.ToolError("stub git missing: run ./setup.sh")
    sdir = os.path.join(core.scratch(), "sf" + pid)
    os.makedirs(sdir, exist_ok=True)
    pools = {"code": SF_CODE, "inner": SF_INNER, "marker": SF_MARKER}
    jobs = []
    for i, sq in enumerate(seqs):
        r2 = random.Random(core.seed() * 9173 + i)
        # (a blame-like line is file content only when the caller names a file: elsewhere it opens a blame construct)
        texts = [r2.choice([t for t in pools[c] if sq["caller"] == "showfile" or not t.startswith("ea82f2d0")]) for c in sq["lines"]]
        jobs.append((i, sq["caller"], sq["lines"], texts, SF_NAMES[i % len(SF_NAMES)]))

    def run_one(i, tag, caller, texts, name, extra):
        data = ("\n".join(texts) + "\n").encode()
        if caller == "none":
            return core.run_delta(SF_ARGS + extra, data)
        f = os.path.join(sdir, f"f{i}{tag}.txt")
        with open(f, "wb") as fh:
            fh.write(data)
        cmd = ["git", "show", "HEAD:" + name] if caller == "showfile" else ["git", "show", "HEAD"]
        r = core.run_delta(SF_ARGS + extra + cmd, b"", env={"PATH": binpath + ":/usr/bin:/bin", "STUB_OUT": f})
        os.unlink(f)
        return r

    def one(job):
        i, caller, cls, texts, (n1, n2) = job
        a = run_one(i, "a", caller, texts, n1, ["--syntax-theme", "Monokai Extended"])
        b = c = d = None
        if caller == "showfile" and "marker" not in cls:
            b = run_one(i, "b", caller, texts, n2, ["--syntax-theme", "Monokai Extended"])
            c = run_one(i, "c", caller, texts, n1, ["--syntax-theme", "none"])
            if "." in n1:
                # the language of the name: the same file under a name that says nothing, with that language as the default
                d = run_one(i, "d", caller, texts, "plainname", ["--syntax-theme", "Monokai Extended", "--default-language", n1.rsplit(".", 1)[1]])
        return a, b, c, d
    res = core.pmap(one, jobs)
    intern = gitskin.Interner()
    events, rel = [], []

    def rows_of(r):
        rows = r.out.split(b"\n")
        if rows and rows[-1] == b"":
            rows.pop()
        return rows
    for (i, caller, cls, texts, names), (a, b, c, d) in zip(jobs, res):
        events.append({"run": i, "caller": caller, "code": a.code if not a.timed_out else 999, "empty": intern(b""),
                       "lines": [{"c": k, "t": intern(t.expandtabs(8).encode())} for k, t in zip(cls, texts)],
                       "rows": [{"t": intern(lexer.strip_ansi(x).decode("utf-8", "replace").expandtabs(8).encode()),
                                 "p": b"48;2;1;2;3" in x} for x in rows_of(a)]})
        if b is not None:
            rel.append({"run": len(rel), "kind": "equal", "x": [intern(x) for x in rows_of(a)] + [1000000 + a.code],
                        "y": [intern(x) for x in rows_of(b)] + [1000000 + b.code], "z": [], "ex": [], "_job": i, "_what": "name"})
            if d is not None:
                rel.append({"run": len(rel), "kind": "equal", "x": [intern(x) for x in rows_of(a)] + [1000000 + a.code],
                            "y": [intern(x) for x in rows_of(d)] + [1000000 + d.code], "z": [], "ex": [], "_job": i, "_what": "lang"})
            cx = [q for row in rows_of(a) for q in cell_rec(row) + [[10, [], [], []]]]
            cy = [q for row in rows_of(c) for q in cell_rec(row) + [[10, [], [], []]]]
            rel.append({"run": len(rel), "kind": "fgonly", "x": cx, "y": cy, "nosyn": [], "strict": False, "z": [], "ex": [],
                        "_job": i, "_what": "theme"})
    failed, tr = tlc.validate_trace("Trace_ShowFile", events)
    drifts = [x for t, v in tr.printed if t == "DRIFT" for x in (v if isinstance(v, list) else [])]
    for d in drifts[:4]:
        V.drift.append(f"module=ShowFile painted / raw predicted otherwise for {jobs[d][3]!r} (caller {jobs[d][1]})")
    for f in failed:
        i, caller, cls, texts, names = jobs[f["run"]]
        V.violation(f"showfile:{f['why']}:{caller}:{texts}", f"git show file: {f['why']} for lines {texts!r} (classes {cls}, caller {caller}, "
                    f"name {names[0]})", {"lines": texts, "caller": caller, "name": names[0], "run": res[f["run"]][0].to_json()})
    rfailed, rtr = tlc.validate_trace("Trace_Rel", [{k: v for k, v in e.items() if not k.startswith("_")} for e in rel], heap="4g")
    for f in rfailed:
        e = rel[f["run"]]
        i, caller, cls, texts, names = jobs[e["_job"]]
        if e["_what"] == "lang":
            V.violation(f"showfile:lang:{texts}:{names[0]}", f"git show HEAD:{names[0]} does not render {texts!r} as it renders the same file under "
                        f"a name without extension with --default-language {names[0].rsplit('.', 1)[1]} (row {f['at']})", {"lines": texts, "name": names[0]})
        elif e["_what"] == "name":
            V.violation(f"showfile:name:{texts}:{names}", f"git show HEAD:{names[0]} and HEAD:{names[1]} (same kind of name) render {texts!r} "
                        f"differently (row {f['at']})", {"lines": texts, "names": names})
        else:
            V.violation(f"showfile:theme:{texts}:{names[0]}", f"git show HEAD:{names[0]}: the rendering of {texts!r} under a theme differs from the "
                        f"one without highlighting in more than foreground colours (cell {f['at']})", {"lines": texts, "name": names[0]})
    log(f"[{pid}] git show rev:path: {len(events)} runs judged by TLC (Trace_ShowFile), {len(failed)} rejected, {len(drifts)} drift; "
        f"{len(rel)} relational judgements, {len(rfailed)} rejected")
    return {"showfile_runs": len(events), "showfile_relational": len(rel), "showfile_design_states": mc.distinct}


def twin_part(tier, V):
    jobs = [(name, view, theme) for name in TWINS for view in ("unified", "side-by-side") for theme in ("Monokai Extended", "Dracula", "GitHub")]

    def one(job):
        name, view, theme = job
        opts, key, val, marked = TWINS[name]
        base = ["--no-gitconfig", "--true-color", "always", "--light" if theme == "GitHub" else "--dark", "--width", "160"] + opts + \
               (["--side-by-side"] if view == "side-by-side" else [])
        x = core.run_delta(base + [key, val, "--syntax-theme", theme], TWIN_DIFF)
        y = core.run_delta(base + [key, val, "--syntax-theme", "none"], TWIN_DIFF)
        z = core.run_delta(base + [key, marked, "--syntax-theme", theme], TWIN_DIFF)
        return x, y, z
    res = core.pmap(one, jobs)
    events = []
    for i, (job, (x, y, z)) in enumerate(zip(jobs, res)):
        if x.code or y.code or z.code:
            V.violation(f"exit:twin:{job[0]}", f"delta exited {x.code}/{y.code}/{z.code} for the twin styles {job}", {"run": x.to_json()})
            continue
        cx = [c for row in x.out.split(b"\n") for c in cell_rec(row) + [[10, [], [], []]]]
        cy = [c for row in y.out.split(b"\n") for c in cell_rec(row) + [[10, [], [], []]]]
        cz = [c for row in z.out.split(b"\n") for c in cell_rec(row) + [[10, [], [], []]]]
        mask = [1 if "ul" in c[3] else 0 for c in cz]
        if sum(mask) == 0:
            raise core.ToolError(f"the marker run shows no marked text for {job}")
        # (the marker attribute itself is not part of x / y)
        events.append({"run": i, "kind": "fgwhere", "x": cx, "y": cy, "z": mask, "ex": []})
    failed, tr = tlc.validate_trace("Trace_Rel", events, heap="4g")
    for f in failed:
        name, view, theme = jobs[f["run"]]
        V.violation(f"twin:{name}:{view}", f"text painted with {TWINS[name][1]} '{TWINS[name][2]}' (no 'syntax') takes a colour from the theme "
                    f"{theme} in {view} view, or differs from the rendering without highlighting (cell {f['at']})",
                    {"twin": name, "view": view, "theme": theme, "run": res[f["run"]][0].to_json()})
    log(f"[{PID}] {len(events)} twin-style triples judged by TLC, {len(failed)} rejected")
    return len(events)


def run(tier):
    t0 = time.time()
    V = core.Verdict(PID)
    rnd = random.Random(core.seed())
    sp = stream_part(tier, V, rnd)
    sp["twin_style_triples"] = twin_part(tier, V)
    sp["highlighting_limit_pairs"] = limit_part(tier, V)
    sp.update(showfile_part(tier, V))
    jobs = []
    n = 120 if tier == "quick" else 1500
    for i in range(n):
        r2 = random.Random(core.seed() * 2477 + i)
        a, b, lang = RENAMES[i % len(RENAMES)]
        mode = list(MODES)[i % len(MODES)]
        pool = DARK if i % 3 else LIGHT
        t1, t2 = r2.sample(pool, 2)
        kind = ["themes", "none", "rename"][i % 3]
        jobs.append((i, a, b, lang, mode, t1, t2, kind, "always" if i % 4 else "never"))

    # blame input: code painted with a configured style that does not ask for 'syntax' (background 52)
    # next to code that does; theme vs another theme / none
    nb = 24 if tier == "quick" else 240
    for i in range(n, n + nb):
        r2 = random.Random(core.seed() * 2477 + i)
        pool = DARK if i % 3 else LIGHT
        t1, t2 = r2.sample(pool, 2)
        jobs.append((i, "", "", r2.choice(["rs", "py"]), ["blame", "blame-syntax"][i % 2], t1, t2, ["themes", "none"][(i // 2) % 2],
                     "always" if i % 4 else "never"))

    def other_input(mode, lang, r2):
        lines = [x for x in CODE[lang] if x]
        if mode.startswith("blame"):
            return "".join(f"{'%08x' % r2.randrange(16 ** 8)} (Author Name{j % 2}       2021-08-22 18:20:19 -0700 {120 + j}) {r2.choice(lines)}\n"
                           for j in range(5)).encode(), \
                   ["--default-language", lang] + (["--blame-code-style", "bold red 52"] if mode == "blame" else ["--blame-code-style", "syntax 22"])
        raise core.ToolError("unknown mode " + mode)

    def one(job):
        i, a, b, lang, mode, t1, t2, kind, tc = job
        if mode not in MODES:
            data, extra = other_input(mode, lang, random.Random(i))
            base = ["--no-gitconfig", "--true-color", tc, "--dark" if t1 in DARK else "--light", "--width", "120"] + extra
            return (core.run_delta(base + ["--syntax-theme", t1], data),
                    core.run_delta(base + ["--syntax-theme", t2 if kind == "themes" else "none"], data))
        r2 = random.Random(core.seed() * 2477 + i)
        r2.random()
        base = ["--no-gitconfig", "--true-color", tc, "--dark" if t1 in DARK else "--light"] + STYLES + MODES[mode]
        if "--width" not in base:
            base += ["--width", "100"]
        d1 = make_diff(a, lang, random.Random(i))
        if i % 5 == 0:
            # a low highlighting limit, and lines whose part beyond it is nothing but trailing blanks
            base += ["--max-syntax-highlighting-length", "24"]
            d1 = trailing_blanks(d1)
        if kind == "themes":
            x = core.run_delta(base + ["--syntax-theme", t1], d1)
            y = core.run_delta(base + ["--syntax-theme", t2], d1)
        elif kind == "none":
            x = core.run_delta(base + ["--syntax-theme", t1], d1)
            y = core.run_delta(base + ["--syntax-theme", "none"], d1)
        else:
            d2 = make_diff(b, lang, random.Random(i))
            if i % 5 == 0:
                d2 = trailing_blanks(d2)
            x = core.run_delta(base + ["--syntax-theme", t1], d1)
            y = core.run_delta(base + ["--syntax-theme", t1], d2)
        return x, y

    res = core.pmap(one, jobs)
    events = []
    for (i, a, b, lang, mode, t1, t2, kind, tc), (x, y) in zip(jobs, res):
        if x.code != 0 or y.code != 0:
            V.violation(f"exit:{mode}:{t1}", f"delta exited {x.code}/{y.code}", {"run": x.to_json()})
            continue
        rx, ry = x.out.split(b"\n"), y.out.split(b"\n")
        if kind == "rename":
            # rows that show the file name differ by construction (and, in side-by-side / decorated
            # headers, so may their padding): compare the rows of the hunk body
            keep = [j for j in range(min(len(rx), len(ry))) if a.encode().split(b"/")[-1] not in lexer.strip_ansi(rx[j])
                    and b.encode().split(b"/")[-1] not in lexer.strip_ansi(ry[j]) and b"\xe2\x94\x80" not in rx[j]]
            rx, ry = [rx[j] for j in keep], [ry[j] for j in keep]
        cx = [c for row in rx for c in cell_rec(row) + [[10, [], [], []]]]
        cy = [c for row in ry for c in cell_rec(row) + [[10, [], [], []]]]
        events.append({"run": i, "kind": "fgonly", "x": cx, "y": cy, "nosyn": NOSYN if tc == "always" else [], "strict": kind == "rename",
                       "z": [], "ex": []})
    failed, tr = tlc.validate_trace("Trace_Rel", events, heap="6g")
    log(f"[{PID}] {len(events)} pairs of renderings compared cell by cell by TLC, {len(failed)} rejected")
    for f in failed:
        i, a, b, lang, mode, t1, t2, kind, tc = jobs[f["run"]]
        V.violation(f"{kind}:{mode}:{lang}:{t1}:{t2}", f"{kind}: renderings of a {lang} diff in mode {mode} ({t1} vs "
                    f"{t2 if kind == 'themes' else ('none' if kind == 'none' else b)}) differ at cell {f['at']} in more than the "
                    "foreground colour", {"job": jobs[f["run"]][1:], "run": res[f["run"]][0].to_json(), "also": [res[f["run"]][1].to_json()]})
    rc = V.finish()
    core.write_evidence(PID, tier, "model_checking", {
        "states": tr.distinct, "transitions": tr.generated, "traces_validated_against_impl": len(events),
        "evaluations": len(events) * 2, "distinct_nontrivial": len({json.dumps(j[1:]) for j in jobs}),
        "rule": "design level: Impl_Stream (syn / hl / sy) satisfies LanguageByName on every history of MC_Stream and MC_DiffU; the "
                "transition-cover histories of Env_Git x Impl_Stream (git, submodule, diff -u sources) are replayed under seven "
                "assignments of file names to the model's file ids and TLC (Trace_Syntax) checks that every hunk line is coloured in the "
                "language of its own file's name; relational part: seeded hunks of Rust, Python, Makefile and plain-text code under styles with and without 'syntax' in three modes and two "
                "colour depths; pairs: two themes of the same light/dark class, a theme vs none, a file vs another name of the same kind "
                "(extension, whole-name Makefile, no extension); TLC compares the two renderings cell by cell: characters, backgrounds "
                "and attributes equal, foreground equal where the style has no 'syntax' (all cells for renames)",
        "themes": DARK + LIGHT,
        "language_state_machine": sp,
        "samples": [{"file": jobs[i][1], "mode": jobs[i][4], "themes": jobs[i][5:7], "kind": jobs[i][7]} for i in (0, 1, 2)],
        "exhaustive": False,
    }, time.time() - t0, len(V.violations),
        ["nothing is said about which foreground a theme assigns (syntect is not modelled)",
         "cells painted without 'syntax' are recognised by their configured background (24-bit mode)"])
    return rc


def replay(path):
    return core.generic_replay(path)
