"""C15 - syntax highlighting only recolours foregrounds, by the file's language."""
import json
import random
import time

from .. import core, gitskin, lexer, stream, tlc
from ..core import log

PID = "C15"
DARK = ["Monokai Extended", "Dracula", "Nord", "zenburn", "OneHalfDark", "gruvbox-dark", "ansi", "base16"]
LIGHT = ["GitHub", "OneHalfLight", "Solarized (light)", "gruvbox-light"]
CODE = {
    "rs": ["fn main() {", "    let x: u32 = 42; // comment", "    println!(\"{}\", \"str\");", "}", "struct S<'a> { f: &'a str }"],
    "py": ["def f(x):", "    return [i for i in range(10)]  # c", "class A(B): pass", "    s = 'str' + \"x\""],
    "mk": ["all: a.o b.o", "\t$(CC) -o $@ $^", "CFLAGS += -O2 # opt", ".PHONY: clean"],
    "txt": ["plain words here", "more, text; 123", "", "tabs\there"],
}
# (name, another name of the same kind) -> language
RENAMES = [("main.rs", "lib.rs", "rs"), ("a/b/tool.py", "x.py", "py"), ("Makefile", "sub/Makefile", "mk"),
           ("notes.txt", "README.txt", "txt"), ("noext", "other_noext", "txt")]
# styles: removed lines without 'syntax' on a recognisable background, added and unchanged with
STYLES = ["--minus-style", "bold red 52", "--minus-emph-style", "italic red 88", "--plus-style", "syntax 22",
          "--plus-emph-style", "syntax ul 28", "--zero-style", "syntax", "--line-numbers-minus-style", "dim 196",
          "--hunk-header-style", "syntax bold", "--file-style", "yellow"]
NOSYN = [[52], [88]]
MODES = {"unified": [], "numbers": ["--line-numbers"], "side-by-side": ["--side-by-side", "--width", "140"]}


def make_diff(name, lang, r2):
    lines = CODE[lang]
    body = []
    for i in range(r2.randint(3, 7)):
        c = r2.choice(" -+")
        body.append(c + r2.choice(lines))
    nm = sum(l[0] in " -" for l in body)
    np_ = sum(l[0] in " +" for l in body)
    return (f"diff --git a/{name} b/{name}\nindex 1..2 100644\n--- a/{name}\n+++ b/{name}\n@@ -3,{nm} +3,{np_} @@ {r2.choice(lines)}\n"
            + "\n".join(body) + "\n").encode()


def cell_rec(row):
    cs, pen = lexer.cells(lexer.tokens(row))
    return [[ord(g[0]), list(fg), list(bg), sorted(at)] for g, fg, bg, at, lk in cs]


def run(tier):
    t0 = time.time()
    V = core.Verdict(PID)
    rnd = random.Random(core.seed())
    jobs = []
    n = 120 if tier == "quick" else 1500
    for i in range(n):
        r2 = random.Random(core.seed() * 2477 + i)
        a, b, lang = RENAMES[i % len(RENAMES)]
        mode = list(MODES)[i % len(MODES)]
        pool = DARK if i % 3 else LIGHT
        t1, t2 = r2.sample(pool, 2)
        kind = ["themes", "none", "rename"][i % 3]
        jobs.append((i, a, b, lang, mode, t1, t2, kind, "always" if i % 4 else "never"))

    def one(job):
        i, a, b, lang, mode, t1, t2, kind, tc = job
        r2 = random.Random(core.seed() * 2477 + i)
        r2.random()
        base = ["--no-gitconfig", "--true-color", tc, "--dark" if t1 in DARK else "--light"] + STYLES + MODES[mode]
        if "--width" not in base:
            base += ["--width", "100"]
        d1 = make_diff(a, lang, random.Random(i))
        if kind == "themes":
            x = core.run_delta(base + ["--syntax-theme", t1], d1)
            y = core.run_delta(base + ["--syntax-theme", t2], d1)
        elif kind == "none":
            x = core.run_delta(base + ["--syntax-theme", t1], d1)
            y = core.run_delta(base + ["--syntax-theme", "none"], d1)
        else:
            d2 = make_diff(b, lang, random.Random(i))
            x = core.run_delta(base + ["--syntax-theme", t1], d1)
            y = core.run_delta(base + ["--syntax-theme", t1], d2)
        return x, y

    res = core.pmap(one, jobs)
    events = []
    for (i, a, b, lang, mode, t1, t2, kind, tc), (x, y) in zip(jobs, res):
        if x.code != 0 or y.code != 0:
            V.violation(f"exit:{mode}:{t1}", f"delta exited {x.code}/{y.code}", {"run": x.to_json()})
            continue
        rx, ry = x.out.split(b"\n"), y.out.split(b"\n")
        if kind == "rename":
            # rows that show the file name differ by construction (and, in side-by-side / decorated
            # headers, so may their padding): compare the rows of the hunk body
            keep = [j for j in range(min(len(rx), len(ry))) if a.encode().split(b"/")[-1] not in lexer.strip_ansi(rx[j])
                    and b.encode().split(b"/")[-1] not in lexer.strip_ansi(ry[j]) and b"\xe2\x94\x80" not in rx[j]]
            rx, ry = [rx[j] for j in keep], [ry[j] for j in keep]
        cx = [c for row in rx for c in cell_rec(row) + [[10, [], [], []]]]
        cy = [c for row in ry for c in cell_rec(row) + [[10, [], [], []]]]
        events.append({"run": i, "kind": "fgonly", "x": cx, "y": cy, "nosyn": NOSYN if tc == "always" else [], "strict": kind == "rename",
                       "z": [], "ex": []})
    failed, tr = tlc.validate_trace("Trace_Rel", events, heap="6g")
    log(f"[{PID}] {len(events)} pairs of renderings compared cell by cell by TLC, {len(failed)} rejected")
    for f in failed:
        i, a, b, lang, mode, t1, t2, kind, tc = jobs[f["run"]]
        V.violation(f"{kind}:{mode}:{lang}:{t1}:{t2}", f"{kind}: renderings of a {lang} diff in mode {mode} ({t1} vs "
                    f"{t2 if kind == 'themes' else ('none' if kind == 'none' else b)}) differ at cell {f['at']} in more than the "
                    "foreground colour", {"job": jobs[f["run"]][1:], "run": res[f["run"]][0].to_json()})
    rc = V.finish()
    core.write_evidence(PID, tier, "model_checking", {
        "states": tr.distinct, "transitions": tr.generated, "traces_validated_against_impl": len(events),
        "evaluations": len(events) * 2, "distinct_nontrivial": len({json.dumps(j[1:]) for j in jobs}),
        "rule": "seeded hunks of Rust, Python, Makefile and plain-text code under styles with and without 'syntax' in three modes and two "
                "colour depths; pairs: two themes of the same light/dark class, a theme vs none, a file vs another name of the same kind "
                "(extension, whole-name Makefile, no extension); TLC compares the two renderings cell by cell: characters, backgrounds "
                "and attributes equal, foreground equal where the style has no 'syntax' (all cells for renames)",
        "themes": DARK + LIGHT,
        "samples": [{"file": jobs[i][1], "mode": jobs[i][4], "themes": jobs[i][5:7], "kind": jobs[i][7]} for i in (0, 1, 2)],
        "exhaustive": False,
    }, time.time() - t0, len(V.violations),
        ["nothing is said about which foreground a theme assigns (syntect is not modelled)",
         "cells painted without 'syntax' are recognised by their configured background (24-bit mode)"])
    return rc


def replay(path):
    return core.generic_replay(path)
