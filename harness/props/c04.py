"""C04 - text that is not diff/blame/grep output passes through byte-for-byte."""
import json
import random
import time

from .. import core, gitskin, lexer, stream, tlc
from ..core import log

PID = "C04"

FRAGS = ["+", "-", " ", "@", "\\", "a", "é", "世", "\t", "\x1b[31m", "\x1b[m", "\x1b[0m", "\x1b[1;38;5;208m", "\x1b[48;2;1;2;3m",
         "diff", "commit", "@@", ":", "|", "12", "Binary", "rename", "x.rs", "=", "  ", "\x1b[K", "#", "{", "}", "\"", "index"]
# construct-opening markers (read off the handler chain): a free-text line must not begin with one
FORBIDDEN = ["commit ", "diff ", "--- ", "+++ ", "@@", "old mode ", "new mode ", "Binary files ", "Submodule ", "Only in ",
             "rename from ", "rename to ", "copy from ", "copy to ", "new file mode ", "deleted file mode ", "{", "index "]


def gen_payload(rnd, maxfrag=5):
    while True:
        n = rnd.randint(0, maxfrag)
        s = "".join(rnd.choice(FRAGS) for _ in range(n))
        vis = lexer.strip_ansi(s.encode()).decode()
        if any(vis.startswith(f) for f in FORBIDDEN) or any(s.startswith(f) for f in FORBIDDEN):
            continue
        # grep-/blame-shaped lines are constructs too: keep ':' away from the first word
        first = vis.split(" ")[0] if vis else ""
        if ":" in first or "=" in first or "-" in first[1:]:
            continue
        return s


TEXT_MODES = {
    "defaults": ["--no-gitconfig"],
    "side-by-side+numbers": ["--no-gitconfig", "--side-by-side", "--line-numbers", "--width", "90"],
    "color-only": ["--no-gitconfig", "--color-only"],
    "diff-so-fancy": ["--no-gitconfig", "--diff-so-fancy"],
    "diff-highlight": ["--no-gitconfig", "--diff-highlight"],
    "navigate+hyperlinks": ["--no-gitconfig", "--navigate", "--hyperlinks"],
    "relative-paths+tabs2": ["--no-gitconfig", "--relative-paths", "--tabs", "2"],
    "raw": ["--no-gitconfig", "--raw"],
    "rs": gitskin.RS_ARGS,
    "maxlen60": ["--no-gitconfig", "--max-line-length", "60"],
    "maxlen0": ["--no-gitconfig", "--max-line-length", "0"],                 # 0 = never truncate
    "sbs-unlimited-wrap": ["--no-gitconfig", "--side-by-side", "--wrap-max-lines", "unlimited", "--width", "80"],
    "hyperlinks+commit-format": ["--no-gitconfig", "--hyperlinks", "--hyperlinks-commit-link-format", "https://example.org/c/{commit}"],
}
COMMIT_RAW_MODES = {"defaults", "navigate+hyperlinks", "hyperlinks+commit-format", "maxlen60", "relative-paths+tabs2", "maxlen0",
                    "sbs-unlimited-wrap"}   # commit-style raw


STAT_LIKE = __import__("re").compile(rb"^ [^ |][^|]*\| +[0-9]+ ")


def rainbow(r2, n):
    """n visible characters, each in its own colour: long in bytes, short on screen."""
    return "".join(f"\x1b[38;5;{r2.randrange(16, 232)}m{r2.choice('abcdefgh xyz')}\x1b[0m" for _ in range(n))


def run(tier):
    t0 = time.time()
    V = core.Verdict(PID)
    rnd = random.Random(core.seed())
    mc = tlc.run_tlc("MC_Stream", cfg=f"MC_Stream_{tier}", workers=8, coverage=False, heap="8g", timeout=3400)
    tlc.require_ok(mc, "MC_Stream")
    if mc.violated:
        V.drift.append(f"module=Impl_Stream design-level {mc.violated} violated")
    hists = [v["h"] for t, v in mc.printed if t == "REPLAY"]
    cov, covstats = stream.cover_histories(pairs=(tier == "thorough"))
    withtext = [h for h in hists + cov if any(l["c"] in ("other", "blank") for l in h)]
    log(f"[{PID}] design level: {mc.distinct} distinct states; {len(withtext)} histories with free text")
    # (1) free text around sections, reserved styles: judged by Obs_Stream (raw rows must carry the input's bytes)
    plans = []
    nvar = 1 if tier == "quick" else 3
    for v in range(nvar):
        table = {}

        def payload(k, c, table=table, v=v):
            if c != "other":
                return gitskin.default_payload(k, c)
            key = (k, v)
            if key not in table:
                table[key] = gen_payload(random.Random(core.seed() * 1000003 + k * 31 + v))
            return table[key]
        plans.append(stream.Plan(f"rs/text{v}", withtext, [], None, payload, skin={"other_payload": True}))
        plans.append(stream.Plan(f"rs+numbers/text{v}", rnd.sample(withtext, min(2000, len(withtext))), ["--line-numbers"],
                                 None, payload, skin={"other_payload": True}))
    # free-text lines that are not valid UTF-8 (Latin-1 author names ...) right after lines delta renders
    def latin1_payload(k, c):
        if c != "other":
            return gitskin.default_payload(k, c)
        return ["Author: J\xfcrgen <j@x>", "    caf\xe9 \x1b[31mcr\xe8me\x1b[m", "\xff\xfe", "note \xa0tokZ%dZ" % k][k % 4]
    plans.append(stream.Plan("rs/latin1", rnd.sample(withtext, min(600, len(withtext))), [], None, latin1_payload,
                             skin={"other_payload": True, "bytes": True}))
    # as git runs its pager from a subdirectory, with relative paths requested (the diffstat handler is active)
    def indented_payload(k, c):
        if c != "other":
            return gitskin.default_payload(k, c)
        # (an indented line that merely contains "| 12 ..." is not a diffstat line: its path does not start right after
        # the single leading space)
        return ["    \x1b[1mindented\x1b[m text tokZ%dZ" % k, "  \x1b[32m+\x1b[m not a stat line", " leading \x1b[33mspace\x1b[m",
                "    bench/runZ%dZ.rs | 12 ms faster" % k, "  two/spaces.rs | 3 ++-", "\tsub/tab.rs | 1 +", "x | 2 +-"][k % 7]
    plans.append(stream.Plan("rs+relative/indented", rnd.sample(withtext, min(600, len(withtext))), ["--relative-paths"], None,
                             indented_payload, skin={"other_payload": True}, env={"GIT_PREFIX": "sub/"}))
    # the default commit style (raw): the commit line and what follows it are written straight to the output - after
    # everything that is still buffered
    after = lambda h, cs: any(l["c"] == "commit" and i > 0 and h[i - 1]["c"] in cs for i, l in enumerate(h))
    craw = ([h for h in cov if after(h, ("minus", "plus"))] + [h for h in cov if after(h, ("zero", "nonl"))][:400]
            + [h for h in hists + cov if after(h, ("other", "blank"))][:400])
    plans.append(stream.Plan("rs+commit-raw", craw[:2500 if tier == "quick" else 20000],
                             ["--commit-style", "raw"], {"commitRaw": True}))
    mstat = tlc.run_tlc("MC_Stream", cfg="MC_Stream_stat", workers=8, coverage=False, heap="8g", timeout=1800)
    tlc.require_ok(mstat, "MC_Stream_stat")
    if mstat.violated:
        V.drift.append(f"module=Impl_Stream design-level {mstat.violated} violated with diffstat lines")
    # `git log --stat` lines: free text, except that with relative paths requested delta rewrites their path
    covstat, covstatstats = stream.cover_histories(pairs=False, cfg="Cover_Stream_stat")
    covstat = [h for h in covstat if any(l["c"] == "stat" for l in h)]
    plans.append(stream.Plan("rs/stat", covstat, [], None))
    plans.append(stream.Plan("rs+relative/stat", covstat, ["--relative-paths"], {"rel": True}, skin={"git_prefix": "sub/"},
                             env={"GIT_PREFIX": "sub/"}))
    failed, n, res, drift_lines = stream.execute_and_validate(plans)
    log(f"[{PID}] replayed {n} runs with free text around sections, {len(failed)} rejected by Obs_Stream")
    for f in failed:
        p, h, data, r, ev, rows = res[f["run"]]
        if not stream.relevant(PID, f):
            continue
        V.violation(f"{f['why']}:{f['wt']}:{f['gt']}:{stream.shape(h)[:300]}",
                    f"history [{stream.shape(h)[:200]}] under {p.name}: wanted row {f['i']} ({f['wt']}) but output row "
                    f"{f['j']} is {f['gt']}", {"history": h, "config": p.name, "run": r.to_json(), "failure": f})
    # (2) pure text streams (git status, program output...), every mode: output rows = input lines
    ntext = 400 if tier == "quick" else 4000
    texts = []
    for i in range(ntext):
        r2 = random.Random(core.seed() * 7919 + i)
        nl = r2.randint(1, 8)
        lines = [gen_payload(r2, 6) for _ in range(nl)]
        variant = i % 6
        raw = [l.encode() for l in lines]
        if variant == 4:       # per-character colours: many bytes, few columns (one line far beyond the default limit in bytes)
            raw = [("w" + rainbow(r2, r2.randint(5, 45))).encode() for _ in range(nl)]
            if i % 12 == 4:
                raw.append(("w" + rainbow(r2, 1400)).encode())
        elif variant == 5:     # a commit section whose free text mentions other commits
            hx = lambda n: "".join(r2.choice("0123456789abcdef") for _ in range(n - 1)) + "a"
            raw = [("commit " + hx(40)).encode(), ("Merge: " + hx(7) + " " + hx(7)).encode(), b"Author: A <a@b>", b"",
                   ("    This reverts commit " + hx(40) + ".").encode(), ("    (cherry picked from commit " + hx(12) + ")").encode(),
                   b"", ("    see " + hx(9) + " and deadbeef").encode()]
        if variant == 1:
            raw = [b + b"\r" for b in raw]                      # CRLF input
        elif variant == 2:
            raw[r2.randrange(nl)] += b"\xff\x80"               # invalid UTF-8
        elif variant == 3:
            raw = [b + b"\r\x1b[m" for b in raw]                # git puts the reset between CR and LF
        texts.append(raw)
    intern = gitskin.Interner()
    jobs = [(i, t, m) for i, t in enumerate(texts) for m in (TEXT_MODES if i % 3 == 0 else rnd.sample(list(TEXT_MODES), 3))
            # (with relative paths requested, " path | 3 ++" lines are diffstat lines, a construct)
            if not (m == "relative-paths+tabs2" and any(STAT_LIKE.match(lexer.strip_ansi(b)) for b in t))
            # (a line wider than a lowered --max-line-length is truncated: not under test here)
            and not (m == "maxlen60" and any(len(lexer.strip_ansi(b).decode("utf-8", "replace")) > 50 for b in t))
            # (a commit line is a construct: it stays as it is only where commit-style is raw)
            and not (any(b.startswith(b"commit ") for b in t) and m not in COMMIT_RAW_MODES)]

    def one(job):
        i, raw, m = job
        env = {"GIT_PREFIX": "sub/"} if m == "relative-paths+tabs2" else None
        return core.run_delta(TEXT_MODES[m], b"".join(b + b"\n" for b in raw), env=env)
    outs = core.pmap(one, jobs)
    events = []
    for j, ((i, raw, m), r) in enumerate(zip(jobs, outs)):
        rows, tail = lexer.split_rows(r.out)
        if tail:
            rows.append(tail)
        events.append({"run": j, "kind": "equal", "x": [intern(stream.normalise_line(b)) for b in raw],
                       "y": [intern(b) for b in rows], "z": [], "ex": []})
    tfailed, tr = tlc.validate_trace("Trace_Rel", events)
    bad_exit = [j for j, r in enumerate(outs) if r.code != 0 or r.timed_out]
    log(f"[{PID}] {len(events)} pure-text runs judged by TLC (rows = lines), {len(tfailed)} rejected, {len(bad_exit)} bad exits")
    for f in tfailed:
        i, raw, m = jobs[f["run"]]
        line = raw[f["at"] - 1] if f["at"] - 1 < len(raw) else b""
        V.violation(f"text:{m}:{line!r}", f"free-text line {line!r} not passed through unchanged in mode {m}",
                    {"mode": m, "run": outs[f["run"]].to_json(), "failure": f})
    for j in bad_exit:
        i, raw, m = jobs[j]
        V.violation(f"exit:{m}:{raw!r}"[:300], f"delta exited {outs[j].code} on free text in mode {m}",
                    {"mode": m, "run": outs[j].to_json()})
    V.drift = drift_lines
    # `git show <rev>` (no file name) and no calling git at all: text without construct-opening lines passes through
    # (the state machine ShowFile; the file view itself is C15's)
    from . import c15
    sf = c15.showfile_part(tier, V, pid=PID, callers=("show", "none"))
    rc = V.finish()
    core.write_evidence(PID, tier, "model_checking", {
        "states": mc.distinct, "transitions": mc.generated,
        "traces_validated_against_impl": n + len(events), "evaluations": n + len(events),
        "distinct_nontrivial": len({json.dumps(x[1], sort_keys=True) + x[0].name for x in res}) + len({(i, m) for i, _, m in jobs}),
        "rule": "(1) every enumerated/cover history containing free text or a trailing blank line, free-text lines filled with "
                "seeded random fragments (SGR sequences, marker-like text not at line start), judged by Obs_Stream; (2) seeded "
                "pure-text streams incl. CRLF, CR+reset and invalid UTF-8 under every mode, judged rows = lines by TLC",
        "modes": sorted(TEXT_MODES), "transition_cover": covstats, "drift": len(V.drift),
        "samples": [{"mode": jobs[j][2], "lines": [b.decode("utf-8", "replace") for b in jobs[j][1]]} for j in (0, 1, 2)],
        "exhaustive": False,
    }, time.time() - t0, len(V.violations),
        ["the set of construct-opening markers is read off delta's handler chain (FORBIDDEN in c04.py)",
         "lines shaped like grep or blame output are constructs and are excluded",
         "truncation beyond max-line-length is permitted by the statement and not exercised here"])
    return rc


def replay(path):
    return core.generic_replay(path)
