"""C18 - exit status and pager protocol: all output delivered, quits are silent."""
import json
import os
import random
import subprocess
import time

from .. import core, gitskin, tlc
from ..core import log

PID = "C18"


def fnv(b):
    h = 1469598103934665603
    for x in b:
        h ^= x
        h = (h * 1099511628211) % (1 << 64)
    return h % 1000000007     # TLC integers are 32 bit: compare a reduced hash


def big_diff(n):
    L = ["diff --git a/x.rs b/x.rs", "index 1..2 100644", "--- a/x.rs", "+++ b/x.rs"]
    for h in range(n):
        L.append(f"@@ -{h * 10 + 1},3 +{h * 10 + 1},3 @@ fn f{h}()")
        L += [f" let a{h} = 1;", f"-let b{h} = 2;", f"+let b{h} = 3;", f" let c{h} = 4;"]
    return ("\n".join(L) + "\n").encode()


def run(tier):
    t0 = time.time()
    V = core.Verdict(PID)
    mc = tlc.run_tlc("MC_Pager", cfg="MC_Pager", workers=2, coverage=False, timeout=600)
    tlc.require_ok(mc, "MC_Pager")
    if mc.violated:
        V.drift.append(f"module=Pager {mc.violated} violated")
    scenarios = [v for t, v in mc.printed if t == "REPLAY"]
    # the pager protocol as a state machine: safety and termination for a pager that reads everything / stops reading and
    # leaves / stops reading and stays; the regression (exit as soon as a write fails) must be rejected
    allowed_logs = {}
    proto_states = 0
    for q in (1, 4):
        for st in ("TRUE", "FALSE"):
            pm = tlc.run_tlc("MC_PagerProto", cfg=f"MC_PagerProto_q{q}_{st}", workers=1, coverage=False, timeout=300)
            tlc.require_ok(pm, "MC_PagerProto")
            if pm.violated:
                V.drift.append(f"module=PagerProto {pm.violated} violated (Quit={q}, Stay={st})")
            proto_states += pm.distinct
            for t, v in pm.printed:
                if t == "FINALLOG":
                    allowed_logs.setdefault((v["quits"], v["stay"]), [])
                    if v["log"] not in allowed_logs[(v["quits"], v["stay"])]:
                        allowed_logs[(v["quits"], v["stay"])].append(v["log"])
    preg = tlc.run_tlc("MC_PagerProto", cfg="MC_PagerProto_regression", workers=1, coverage=False, timeout=300)
    if preg.violated != "NoEarlyExit":
        raise core.ToolError("MC_PagerProto_regression (exit on the first failed write) did not violate NoEarlyExit")
    pshort = tlc.run_tlc("MC_PagerProto", cfg="MC_PagerProto_regression_short", workers=1, coverage=False, timeout=300)
    if pshort.violated != "AllDelivered":
        raise core.ToolError("MC_PagerProto_regression_short (the rest of a short write is dropped) did not violate AllDelivered")
    peintr = tlc.run_tlc("MC_PagerProto", cfg="MC_PagerProto_regression_eintr", workers=1, coverage=False, timeout=300)
    if peintr.violated != "Quiet":
        raise core.ToolError("MC_PagerProto_regression_eintr (an interrupted write call is taken for an error) did not violate Quiet")
    # a differ that talks on stderr while it succeeds (GIT_TRACE=1): status and output must be what they are without the talk;
    # a wrapped command that complains a lot (4 000 lines, far more than a pipe holds, on stderr before it writes to stdout): the
    # scenarios in which delta runs a command and the consumer stays are run a second time with such a command
    log(f"[{PID}] fault space enumerated by TLC: {len(scenarios)} scenarios ({mc.distinct} states), {sum(sc['noisy'] for sc in scenarios)} of them with a program that talks on stderr")
    work = os.path.join(core.scratch(), "c18")
    os.makedirs(work, exist_ok=True)
    pagers = os.path.join(core.FIXBIN, "pagers")
    stubbin = os.path.join(core.FIXBIN, "bin")
    shim = os.path.join(core.FIXBIN, "writeshim.so")
    for p in (os.path.join(pagers, "less"), os.path.join(stubbin, "git"), shim):
        if not os.path.exists(p):
            raise core.ToolError(f"fixture missing: {p} (run ./setup.sh)")
    diff = big_diff(60)
    bigdiff = big_diff(2500)          # its rendering is several times a pipe buffer
    fa, fb, fc = (os.path.join(work, n) for n in ("a.txt", "b.txt", "same.txt"))
    open(fa, "w").write("".join(f"line {i}\n" for i in range(200)))
    open(fb, "w").write("".join(f"line {i}{'!' if i % 7 == 0 else ''}\n" for i in range(200)))
    open(fc, "w").write(open(fa).read())
    fabig, fbbig = (os.path.join(work, n) for n in ("abig.txt", "bbig.txt"))
    open(fabig, "w").write("".join(f"line {i}\n" for i in range(9000)))
    open(fbbig, "w").write("".join(f"line {i}{'!' if i % 3 == 0 else ''}\n" for i in range(9000)))
    grep_out = os.path.join(work, "grep.txt")
    open(grep_out, "w").write("".join(f"src/a.rs:{i}:let foo{i} = {i};\n" for i in range(1, 200)))
    big_grep_out = os.path.join(work, "grep-big.txt")
    open(big_grep_out, "w").write("".join(f"src/a.rs:{i}:let foo{i} = {i}; // {'x' * 40}\n" for i in range(1, 9000)))

    def command(sc, idx):
        """argv, stdin, env additions for a scenario."""
        env = {"PATH": f"{pagers}:{stubbin}:/usr/bin:/bin", "PAGER_LOG": os.path.join(work, f"pager{idx}.log"),
               "LESS": None}
        args = ["--no-gitconfig", "--width", "80"]
        stdin = b""
        if sc["mode"] == "showconfig":
            args += ["--show-config"]
        elif sc["mode"] == "version":
            args = ["--version"]
        elif sc["mode"] == "stdin":
            stdin = bigdiff if sc["big"] else diff
        elif sc["mode"] == "diff" and sc["how"] == "samepath":
            missing = os.path.join(work, "does-not-exist")
            args += [fa, fa] if sc["status"] == 0 else [missing, missing]
        elif sc["mode"] == "diff" and sc["how"] == "badopt":
            args += ["-@--no-such-differ-option", fa, fa]
        elif sc["mode"] == "diff":
            if sc["noisy"] and sc["status"] in (0, 1):
                # a differ that talks on stderr while it succeeds (traces, warnings about its configuration).  (With the stub
                # git in front delta finds no git version and uses diff(1); here it finds the real git and runs git diff --no-index.)
                env["GIT_TRACE"] = "1"
                env["PATH"] = f"{pagers}:/usr/bin:/bin"
            if sc["status"] == 0:
                args += [fa, fc]
            elif sc["status"] == 1:
                args += [fabig, fbbig] if sc["big"] else [fa, fb]
            else:
                args += [fa, os.path.join(work, "does-not-exist")]
        else:
            env["STUB_OUT"] = big_grep_out if sc["big"] else grep_out
            env["STUB_EXIT"] = str(sc["status"])
            if sc["noisy"]:
                env["STUB_ERR_LINES"] = "4000"
            args += ["git", "grep", "-n", "foo"]
        if sc["out"] == "pager":
            pre = ["--paging", "always"]
            if sc["src"]["config"]:
                pre += ["--pager", "less" if sc["bare"] else "mypager"]
            if sc["src"]["delta"]:
                env["DELTA_PAGER"] = "less" if sc["bare"] else "otherpager"
            if sc["src"]["bat"]:
                env["BAT_PAGER"] = "batpager"
            if sc["src"]["pager"]:
                env["PAGER"] = sc["pagerval"]
            if sc["quit"] > 0:
                env["PAGER_QUIT_AFTER"] = str(sc["quit"])
                if sc["stay"]:
                    env["PAGER_STAY_MS"] = "400"
            else:
                env["PAGER_LINGER_MS"] = "150"
        else:
            pre = ["--paging", "never"]
            if sc["quit"] > 0:
                env["LD_PRELOAD"] = shim
                env["WRITESHIM_FAIL_AT"] = str(sc["quit"])
        if sc.get("wf", "none") != "none":
            # a disturbed write call in delta itself (not in the programs it starts): towards stdout, or towards the pager's pipe
            env["LD_PRELOAD"] = shim
            env["WRITESHIM_COMM"] = "delta"
            if sc["out"] == "pager":
                env["WRITESHIM_FD"] = "-1"
            if sc["wf"] == "eintr":
                env["WRITESHIM_EINTR_AT"] = str(sc["wat"])
            else:
                env["WRITESHIM_SHORT_AT"] = str(sc["wat"])
                if sc["wf"] == "shortall":
                    env["WRITESHIM_SHORT_EVERY"] = "1"
        # argument position: options must precede the wrapped command
        if sc["mode"] == "wrap":
            i = args.index("git")
            args = args[:i] + pre + args[i:]
            pre = []
        return pre + args, stdin, env

    def one(isc):
        idx, sc = isc
        # diff/wrap with status >= 2 cannot be combined with a differ that really reports it except via missing file
        if sc["mode"] == "diff" and sc["status"] == 129:
            return None
        if sc["how"] == "badopt" and sc["status"] != 2:
            return None
        args, stdin, env = command(sc, idx)
        logf = env["PAGER_LOG"]
        if os.path.exists(logf):
            os.unlink(logf)
        # (the pager inherits delta's stdout, so the end of the captured output says nothing about when delta itself
        # exited: a shell notes that moment in the pager's log)
        if sc["out"] == "pager":
            r = core.run_delta(args, stdin, env=env, binary="/bin/sh", timeout=30,
                               prefix_args=("-c", '"$@"; rc=$?; echo delta-exit >> "$PAGER_LOG"; exit $rc', "sh", core.DELTA))
        else:
            r = core.run_delta(args, stdin, env=env, prefix_args=(), timeout=30)
        plog = open(logf).read().splitlines() if os.path.exists(logf) else []
        if os.path.exists(logf):
            os.unlink(logf)
        # reference: complete output of the same command without any fault, to stdout
        ref_sc = dict(sc, out="stdout", quit=0, wf="none", wat=0)
        rargs, rstdin, renv = command(ref_sc, idx)
        wlog = os.path.join(work, f"writes{idx}.log")
        renv.update({"LD_PRELOAD": shim, "WRITESHIM_LOG": wlog})
        ref = core.run_delta(rargs, rstdin, env=renv, prefix_args=(), timeout=30)
        ref_writes = int(open(wlog).read().split()[-1]) if os.path.exists(wlog) else 0
        if os.path.exists(wlog):
            os.unlink(wlog)
        return dict(sc, _idx=idx), r, plog, ref, ref_writes

    res = [x for x in core.pmap(one, list(enumerate(scenarios)), jobs=8) if x is not None]
    events = []
    for i, (sc, r, plog, ref, ref_writes) in enumerate(res):
        start = [l for l in plog if l.startswith("start ")]
        got = [l for l in plog if l.startswith("got ")]
        pager = start[0].split(" ")[1] if start else ""
        pargs = start[0].split(" ", 2)[2] if start and len(start[0].split(" ", 2)) > 2 else ""
        if sc["out"] == "pager":
            gbytes, ghash = (int(got[0].split()[1]), int(got[0].split()[2]) % 1000000007) if got else (0, 0)
        else:
            gbytes, ghash = len(r.out), fnv(r.out)
        events.append({"run": i, "sc": sc, "code": 999 if r.timed_out else r.code, "stderr": 1 if r.err.strip() else 0, "errLines": r.err.count(b"\n"),
                       "hit": sc["quit"] > 0 and ref_writes >= sc["quit"], "pager": pager, "rflag": ("--RAW-CONTROL-CHARS" in pargs or "-R" in pargs.split("\x1f")),
                       "got": gbytes, "sent": len(ref.out), "gotHash": ghash, "sentHash": fnv(ref.out),
                       "pagerDoneFirst": "done" in plog and "delta-exit" in plog and plog.index("done") < plog.index("delta-exit"),
                       "plog": [l.split(" ")[0] for l in plog if l.split(" ")[0] in ("start", "got", "done", "delta-exit")],
                       "allowed": allowed_logs.get((sc["quit"] > 0, bool(sc["stay"])), [])})
    failed, tr = tlc.validate_trace("Trace_Pager", events)
    log(f"[{PID}] {len(events)} scenario runs judged by TLC (Trace_Pager), {len(failed)} rejected")
    for f in failed:
        sc, r, plog, ref, ref_writes = res[f["run"]]
        src = "+".join(k for k, v in sc["src"].items() if v) or "none"
        V.violation(f"{f['why']}:{sc['mode']}:{sc['out']}:{sc['quit']}:{sc['status']}:{src}:{sc['pagerval']}",
                    f"{f['why']}: mode {sc['mode']}, output to {sc['out']}, consumer quits at {sc['quit']}, child status "
                    f"{sc['status']}, pager sources {src} (PAGER={sc['pagerval']}): exit {r.code}, stderr {r.err[:120]!r}",
                    {"scenario": sc, "run": r.to_json(), "pager_log": plog})
    rc = V.finish()
    core.write_evidence(PID, tier, "fault_enumeration", {
        "evaluations": len(events), "distinct_nontrivial": len({json.dumps(e["sc"], sort_keys=True) for e in events}),
        "rule": "TLC enumerates the scenario space of MC_Pager (stdin mode: the consumer of stdout goes away at each of the first 40 "
                "write calls, or stays while the n-th write call is short / all later ones are short / it fails with EINTR (stdin, two-file and wrapped-command mode, to stdout and to a pager, output below and above a pipe buffer); pager mode: every subset of the four pager sources x three PAGER values x quit after 0/1/10/5000 "
                "bytes; two-file and wrapped-command mode: differ/child status 0, 1, 2, 129 x consumer stays / quits; a pager that stops reading but stays "
                "alive, with output above and below the pipe-buffer size; the same path given twice and a differ option that is rejected); each is forced "
                "on the real binary (LD_PRELOAD write shim, stub pagers and stub git) and judged by TLC against Pager",
        "states": mc.distinct + proto_states, "transitions": mc.generated, "traces_validated_against_impl": len(events),
        "pager_protocol_states": proto_states, "pager_protocol_logs": {f"quits={k[0]},stays={k[1]}": v for k, v in allowed_logs.items()},
        "samples": [e["sc"] for e in events[:3]],
        "exhaustive": True,
    }, time.time() - t0, len(V.violations),
        ["pagers are stubs that log argv, bytes received and their own end; a real less is not exercised",
         "the reader 'going away' in stdout mode is an EPIPE on write(2) injected by an LD_PRELOAD shim",
         "delta runs with SIGPIPE ignored as Rust programs do, so EPIPE reaches the error path"])
    return rc


def replay(path):
    return core.generic_replay(path)
