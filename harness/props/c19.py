"""C19 - hyperlinks are well-formed, transparent, and point at the right target."""
import json
import os
import random
import re
import socket
import time

from .. import core, gitskin, lexer, stream, termev, tlc
from ..core import log

PID = "C19"
TEMPLATES = {
    "default": (None, ["file://", "{path}"]),
    "host-line": ("x://{host}/{path}:{line}", ["x://", "{host}", "/", "{path}", ":", "{line}"]),
    "line-first": ("vscode://file/{path}#L{line}", ["vscode://file/", "{path}", "#L", "{line}"]),
    "placeholders-twice": ("x://h/{path}:{line}?p={path}&l={line}", ["x://h/", "{path}", ":", "{line}", "?p=", "{path}", "&l=", "{line}"]),
}
CTEMPLATES = [("https://example.org/c/{commit}", ["https://example.org/c/", "{commit}"]),
              ("https://example.org/c/{commit}?diff=split&highlight={commit}",
               ["https://example.org/c/", "{commit}", "?diff=split&highlight=", "{commit}"]),
              ("https://example.org/fixed", ["https://example.org/fixed"])]
MODES = {
    "rs+numbers": gitskin.RS_ARGS + ["--line-numbers"],
    "rs+sbs": gitskin.rs_args(180) + ["--side-by-side"],
    "rs": gitskin.RS_ARGS,
    "defaults+numbers": ["--no-gitconfig", "--line-numbers", "--width", "100"],
    "sbs-narrow-wrap": ["--no-gitconfig", "--side-by-side", "--width", "50"],
    "navigate+decorations": ["--no-gitconfig", "--navigate", "--width", "90"],
    # the README's configuration: raw commit line inside a box
    "commit-box": ["--no-gitconfig", "--commit-decoration-style", "bold yellow box ul", "--width", "100"],
    # displayed names are rewritten; the links must still point to the files
    "rs+file-transformation": gitskin.RS_ARGS + ["--file-transformation", "s,Z,Q,"],
}
UNTRANSFORM = {nm.replace("Z", "Q", 1): nm for nm in gitskin.FILES.values()}
_PATH = re.compile(r"^(?:[\w./ -]*/)?(?:alpha|beta|gamma)(?:\{line\}|\{host\}|\{path\})?Z[123]Z\.rs$")
# file names that contain the text of a link-format placeholder
PLACEHOLDER_NAMES = {1: "alpha{line}Z1Z.rs", 2: "beta{host}Z2Z.rs", 3: "gamma{path}Z3Z.rs"}


def link_spans(row):
    """[(text, url)] for each OSC 8 span of the row."""
    out, cur, url = [], None, ""
    for t in lexer.tokens(row):
        if t[0] == "osc8":
            if t[1]:
                cur, url = "", t[1]
            elif cur is not None:
                out.append((cur, url))
                cur = None
        elif t[0] == "text" and cur is not None:
            cur += t[1]
    return out


def run(tier):
    t0 = time.time()
    V = core.Verdict(PID)
    rnd = random.Random(core.seed())
    cov, covstats = stream.cover_histories(pairs=False)
    def realistic(h):
        # git never shows added lines in a deleted file or removed lines in a new one (their links would
        # have to point into /dev/null)
        kd = ""
        for l in h:
            if l["c"] == "diff":
                kd = l["kd"]
            if (kd == "del" and l["c"] in ("plus", "zero")) or (kd == "add" and l["c"] in ("minus", "zero")):
                return False
        return True
    covmode, _ = stream.cover_histories(pairs=False, cfg="Cover_Stream_mode")     # mode changes with binary content / renames
    cov = [h for h in cov if len(h) >= 4 and realistic(h)]
    covmode = [h for h in covmode if len(h) >= 4 and realistic(h)]
    nq = 300 if tier == "quick" else 4000
    hists = rnd.sample(cov, min(len(cov), nq))
    # strata a uniform sample may miss: commit lines, sections whose header is written late (mode change, binary)
    for pred in (lambda h: any(l["c"] == "commit" for l in h),
                 lambda h: any(l.get("kd") in ("modebin", "renmode") for l in h)):
        st = [h for h in cov + covmode if pred(h)]
        hists += rnd.sample(st, min(len(st), nq // 4))
    host = socket.gethostname()
    sub = os.path.join(core.scratch(), "cwd", "sub dir")
    os.makedirs(sub, exist_ok=True)
    jobs = []
    for i, h in enumerate(hists):
        mode = list(MODES)[i % len(MODES)]
        tname = list(TEMPLATES)[(i // len(MODES)) % len(TEMPLATES)]
        # 0: delta runs in the directory the paths are relative to; 1: git ran it from a subdirectory (GIT_PREFIX);
        # 2: ... with --relative-paths, and a `git log --stat` preamble whose paths delta rewrites
        jobs.append((h, mode, tname, (1 if i % 7 == 0 else 2 if i % 7 == 3 else 0), i % len(CTEMPLATES)))
    # the same, for files whose names contain "{line}", "{host}", "{path}"
    for i, h in enumerate(hists[:120 if tier == "quick" else 1200]):
        jobs.append((h, list(MODES)[i % len(MODES)], list(TEMPLATES)[(i // 2) % len(TEMPLATES)], 10 + (1 if i % 5 == 0 else 0), i % len(CTEMPLATES)))

    def one(job):
        h, mode, tname, insub, ct = job
        nskin = {"names": PLACEHOLDER_NAMES} if insub >= 10 else {}
        insub = insub % 10
        def payload(k, c):
            if c == "other" and insub == 2:
                return [" alphaZ1Z.rs         |  3 ++-", " sub dir/betaZ2Z.rs   | 10 +++++-----", " 2 files changed, 7 insertions(+)"][k % 3]
            return f"tokZ{k}Z " + ("long " * 14 if k % 5 == 0 else "w")
        if insub == 2:
            Lk = lambda c: {"c": c, "f": 0, "g": 0, "kd": ""}
            h = [Lk("commit"), Lk("other"), Lk("other"), Lk("other"), Lk("other")] + [l for l in h]
        data, texts = gitskin.concretise(h, payload=payload, skin=dict(nskin, other_payload=True) if insub == 2 else (nskin or None))
        if ct == 1 and insub != 2:
            # as git hands it to its pager: coloured (transparency must hold for coloured input too)
            data = "".join(t + "\n" for t in gitskin.colourise(h, texts, 1 + len(h) % 4)).encode()
        extra = ["--hyperlinks", "--hyperlinks-commit-link-format", CTEMPLATES[ct][0]]
        if TEMPLATES[tname][0]:
            extra += ["--hyperlinks-file-link-format", TEMPLATES[tname][0]]
        # git starts its pager in the repository root and passes the user's directory in GIT_PREFIX
        env = {"GIT_PREFIX": "sub dir/"} if insub else None
        cwd = None
        relp = ["--relative-paths"] if insub == 2 else []
        with_l = core.run_delta(MODES[mode] + relp + extra, data, env=env, cwd=cwd)
        without = core.run_delta(MODES[mode] + relp, data, env=env, cwd=cwd)
        return with_l, without

    res = core.pmap(one, jobs)
    intern = gitskin.Interner()
    rel, term, links = [], [], []
    # delta started in a directory that has been deleted: no absolute path can be formed, so no file link can be made -
    # and nothing else may change
    GONE = 'd=$(mktemp -d) && cd "$d" && rmdir "$d" && exec "$@"'

    def gone_one(h):
        data, texts = gitskin.concretise(h)
        pre = ("-c", GONE, "sh", core.DELTA, "--paging", "never")
        args = gitskin.RS_ARGS + ["--line-numbers"]
        return (core.run_delta(args + ["--hyperlinks"], data, binary="/bin/sh", prefix_args=pre),
                core.run_delta(args, data, binary="/bin/sh", prefix_args=pre))
    # blame output: commit hashes shorter than their column (git blame --abbrev=6), wider columns in the format
    def blame_one(j):
        r2 = random.Random(core.seed() * 4243 + j)
        n = [7, 8, 12, 40][j % 4]
        lines = []
        for i in range(r2.randint(2, 6)):
            hx = "".join(r2.choice("0123456789abcdef") for _ in range(n - 1)) + r2.choice("abcdef")
            if i % 3 == 2:
                hx = "".join(r2.choice("0123456789") for _ in range(n))       # digits only
            lines.append(f"{hx} (Author N{i % 2}      2021-08-22 18:20:19 -0700 {120 + i})     let v{i} = {i};")
        data = ("\n".join(lines) + "\n").encode()
        args = ["--no-gitconfig", "--width", "120"] + ([] if j % 3 else ["--blame-format", "{timestamp:<15} {author:<15.14} {commit:<10}"])
        extra = ["--hyperlinks", "--hyperlinks-commit-link-format", CTEMPLATES[j % len(CTEMPLATES)][0]]
        return core.run_delta(args + extra, data), core.run_delta(args, data)
    blame_res = core.pmap(blame_one, range(24 if tier == "quick" else 240))
    gone_hists = [h for h in hists if any(l["c"] in ("plus", "zero") for l in h)][:40 if tier == "quick" else 400]
    gone_res = core.pmap(gone_one, gone_hists)
    root = os.path.join(core.scratch(), "cwd")
    for i, ((h, mode, tname, insub, ct), (w, wo)) in enumerate(zip(jobs, res)):
        names = PLACEHOLDER_NAMES if insub >= 10 else gitskin.FILES
        untransform = {nm.replace("Z", "Q", 1): nm for nm in names.values()}
        insub = insub % 10
        if w.code != 0 or wo.code != 0:
            V.violation(f"exit:{mode}", f"delta exited {w.code}/{wo.code} in mode {mode}", {"run": w.to_json()})
            continue
        a = [intern(b) for b in lexer.strip_osc8(w.out).split(b"\n")]
        b = [intern(x) for x in wo.out.split(b"\n")]
        rel.append({"run": i, "kind": "equal", "x": a, "y": b, "z": [], "ex": []})
        term.extend(termev.row_events(i, w.out))
        if mode.startswith("rs"):
            rows = []
            for rb in w.out.split(b"\n")[:-1]:
                p = gitskin.parse_row(rb, intern)
                cells, _ = gitskin.kinded_cells(rb)
                base = os.path.join(root, "sub dir") if insub == 2 else root     # what displayed paths are relative to
                hhpath = "".join(g for g, kd, wd, c in cells if kd == "hhFile")
                if mode == "rs+file-transformation":
                    for shown, real in untransform.items():
                        hhpath = hhpath.replace(shown, real)
                hhline = "".join(g for g, kd, wd, c in cells if kd == "hhLine")
                # the file a hunk belongs to, from the input (not from what the row displays): the hunk header carries the
                # fragment token of its input line; its section's "diff" line names the file (the new one of a rename)
                true_fid = None
                if p["t"] == "hunkHdr" and p.get("frag"):
                    kk = p["frag"] - (5 if insub == 2 else 0)
                    for l in reversed(h[:max(0, kk)]):
                        if l["c"] == "diff":
                            true_fid = l["g"] if l["kd"] in ("rename", "renmod", "copy", "renmode", "binx", "renbin") else l["f"]
                            break
                lks = []
                for text, url in link_spans(rb):
                    t = text.strip()
                    if mode == "rs+file-transformation":      # undo the display transformation to know which file is meant
                        for shown, real in untransform.items():
                            t = t.replace(shown, real)
                    if t.endswith(" (binary file)"):
                        t = t[:-len(" (binary file)")]     # a note delta appends to the displayed name
                    if t == "":
                        continue      # an invisible link (header of a cut-off section without a name)
                    line = ""
                    m = re.fullmatch(r"(.*\.rs):(\d+)", t)
                    if m and p["t"] == "hunkHdr":
                        t, line = m.group(1), m.group(2)      # the hunk header links path and position together
                    kind = ("num" if t.isdigit() else "path" if _PATH.match(t) else
                            "commit" if re.fullmatch(r"[0-9a-f]{7,40}", t) else "other")
                    # the file a link on a path must point to is the file of that name in the input (its path from the
                    # repository root), however the path is displayed (relative to the user's directory, ...)
                    # (a diffstat line names its own path, which need not be one of the diff's files)
                    fid = (next((f for f, nm in names.items() if os.path.basename(t) == nm), None)
                           if kind == "path" and p["t"] in ("fileHdr", "hunkHdr") else None)
                    if kind == "path" and p["t"] == "hunkHdr" and true_fid:
                        fid = true_fid
                    lks.append({"text": t, "url": url, "kind": kind, "line": line,
                                "abs": (os.path.normpath(os.path.join(root, names[fid])) if fid
                                        else os.path.normpath(os.path.join(base, t))) if kind == "path" else ""})
                k = p["t"] if p["t"] in ("fileHdr", "hunkHdr", "commit") else ("code" if p["t"] in ("minus", "plus", "zero") else "other")
                rows.append({"k": k, "abs": (os.path.normpath(os.path.join(root, names[true_fid])) if true_fid else
                                             os.path.normpath(os.path.join(base, hhpath)) if hhpath else ""), "links": lks})
            links.append({"run": i, "parts": TEMPLATES[tname][1], "cparts": CTEMPLATES[ct][1], "cwd": root, "host": host, "rows": rows})
    n_main = len(jobs)
    for j, (w, wo) in enumerate(gone_res):
        if w.code != 0 or wo.code != 0:
            V.violation("exit:cwd-gone", f"delta exited {w.code}/{wo.code} when started in a deleted directory", {"run": w.to_json()})
            continue
        rel.append({"run": n_main + j, "kind": "equal", "x": [intern(b) for b in lexer.strip_osc8(w.out).split(b"\n")],
                    "y": [intern(x) for x in wo.out.split(b"\n")], "z": [], "ex": []})
    n_gone = len(gone_res)
    for j, (w, wo) in enumerate(blame_res):
        if w.code != 0 or wo.code != 0:
            V.violation("exit:blame", f"delta exited {w.code}/{wo.code} on blame input with hyperlinks", {"run": w.to_json()})
            continue
        rel.append({"run": n_main + n_gone + j, "kind": "equal", "x": [intern(b) for b in lexer.strip_osc8(w.out).split(b"\n")],
                    "y": [intern(x) for x in wo.out.split(b"\n")], "z": [], "ex": []})
        term.extend(termev.row_events(n_main + n_gone + j, w.out))
    f_rel, r1 = tlc.validate_trace("Trace_Rel", rel)
    n = max(1, min(6, len(term) // 20000 + 1))
    outs = core.pmap(lambda ch: tlc.validate_trace("Trace_Term", ch, heap="3g"), [term[i::n] for i in range(n)], jobs=n)
    f_term = [f for fl, r in outs for f in fl]
    f_links, r3 = tlc.validate_trace("Trace_Links", links)
    nlinks = sum(len(r["links"]) for e in links for r in e["rows"])
    log(f"[{PID}] {len(rel)} with/without pairs (transparency), {len(term)} rows (Term), {len(links)} runs with {nlinks} link targets "
        f"judged by TLC: {len(f_rel)}/{len(f_term)}/{len(f_links)} rejected")
    if nlinks < 50:
        raise core.ToolError("hardly any hyperlink was observed: the check would be vacuous")
    for f in f_rel:
        if f["run"] >= n_main + n_gone:
            j = f["run"] - n_main - n_gone
            V.violation(f"transparent:blame:{j % 4}:{j % 3 == 0}", "blame input: the output with OSC 8 sequences removed differs from the run without "
                        f"--hyperlinks at row {f['at']} (hash length {[7, 8, 12, 40][j % 4]}, {'wider commit column' if j % 3 == 0 else 'default format'})",
                        {"run": blame_res[j][0].to_json()})
            continue
        if f["run"] >= n_main:
            h = gone_hists[f["run"] - n_main]
            V.violation(f"transparent:cwd-gone:{stream.shape(h)[:200]}", "started in a deleted directory, the output with OSC 8 sequences removed "
                        f"differs from the run without --hyperlinks at row {f['at']} ([{stream.shape(h)[:160]}])",
                        {"history": h, "run": gone_res[f["run"] - n_main][0].to_json()})
            continue
        h, mode, tname, insub, ct = jobs[f["run"]]
        V.violation(f"transparent:{mode}:{stream.shape(h)[:200]}", f"output with OSC 8 sequences removed differs from the run without "
                    f"--hyperlinks at row {f['at']} (mode {mode}, [{stream.shape(h)[:160]}])",
                    {"history": h, "mode": mode, "run": res[f["run"]][0].to_json(), "also": [res[f["run"]][1].to_json()]})
    seen = set()
    for f in f_term:
        if f["run"] >= n_main:
            V.violation(f"term:{f['why']}:blame", f"row {f['row']} of a blame rendering with hyperlinks: {f['why']}", {"run": blame_res[f["run"] - n_main - n_gone][0].to_json()})
            continue
        h, mode, tname, insub, ct = jobs[f["run"]]
        if (f["why"], mode) in seen:
            continue
        seen.add((f["why"], mode))
        V.violation(f"term:{f['why']}:{mode}", f"row {f['row']} in mode {mode}: {f['why']}", {"history": h, "mode": mode,
                                                                                              "run": res[f["run"]][0].to_json()})
    for f in f_links:
        e = links[[x["run"] for x in links].index(f["run"])] if False else None
        h, mode, tname, insub, ct = jobs[f["run"]]
        V.violation(f"target:{mode}:{tname}:{insub}:{stream.shape(h)[:200]}", f"a hyperlink in output row {f['row']} has the wrong target "
                    f"(mode {mode}, template {tname}, in subdirectory (0 no, 1 GIT_PREFIX, 2 with --relative-paths)={insub}, [{stream.shape(h)[:120]}])",
                    {"history": h, "mode": mode, "template": tname, "run": res[f["run"]][0].to_json()})
    rc = V.finish()
    core.write_evidence(PID, tier, "model_checking", {
        "states": r1.distinct + r3.distinct + sum(r.distinct for fl, r in outs), "transitions": r1.generated + r3.generated,
        "traces_validated_against_impl": len(rel) + len(links), "evaluations": len(rel) + len(term) + nlinks,
        "distinct_nontrivial": len({json.dumps(j[0]) + j[1] + j[2] + str(j[3]) + str(j[4]) for j in jobs}),
        "rule": "transition-cover histories (with wrapping lines) x six modes x three file-link templates, run with and without "
                "--hyperlinks, from the repository root and from a subdirectory (GIT_PREFIX): TLC judges transparency (Trace_Rel), "
                "per-row link balance (Trace_Term) and every link target against path / displayed line number / commit hash "
                "(Trace_Links)",
        "link_targets_checked": nlinks, "transition_cover": covstats,
        "samples": [{"mode": jobs[0][1], "template": jobs[0][2], "links": [r["links"] for r in links[0]["rows"] if r["links"]][:3]}],
        "exhaustive": False,
    }, time.time() - t0, len(V.violations),
        ["link targets are checked under the reserved-style modes (rows must be classifiable); transparency and balance in all modes",
         "remote-derived commit link templates need a git repository and are not exercised; the template is given explicitly",
         "grep and blame inputs are not combined with hyperlinks yet"])
    return rc


def replay(path):
    return core.generic_replay(path)
