"""C05 - displayed line numbers are the true old/new file line numbers."""
import itertools
import json
import random
import time

from .. import core, gitskin, lexer, stream, tlc
from ..core import log

PID = "C05"
L = lambda c, f=0, g=0, kd="": {"c": c, "f": f, "g": g, "kd": kd}
HDR = [L("diff", 1, 1, "mod"), L("index"), L("mmm", 1), L("ppp", 1)]
STARTS = [(1, 1), (9, 10), (99, 100), (999, 1000), (999999, 1000000), (1000003, 1000007), (0, 1), (1, 0), (12345, 12),
          (9997, 97), (98, 3), (7, 9998)]      # one side gains a digit inside the hunk, the other has fewer digits
FORMATS = {
    "default": [],
    "custom1": ["--line-numbers-left-format", "{nm:>5}|", "--line-numbers-right-format", "{np:<5}:"],
    "custom2": ["--line-numbers-left-format", "{nm:^7}", "--line-numbers-right-format", "[{np}] "],
    "both-in-left": ["--line-numbers-left-format", "{nm:>4}/{np:<4} ", "--line-numbers-right-format", ""],
    # a precision is meaningless for a number: it must not cut digits off
    "precision": ["--line-numbers-left-format", "{nm:>5.2}|", "--line-numbers-right-format", "{np:<3.1}|"],
}


def make_input(bodies, starts, long_mask, omit_counts, fam):
    """bodies: list of class lists (one per hunk). Returns (bytes, hunks-for-the-spec)."""
    lines = ["diff --git a/alphaZ1Z.rs b/alphaZ1Z.rs", "index 1111111..2222222 100644", "--- a/alphaZ1Z.rs", "+++ b/alphaZ1Z.rs"]
    hunks = []
    k = 0
    for hi, (body, (so, sn)) in enumerate(zip(bodies, starts)):
        nm = sum(c in ("minus", "zero") for c in body)
        np_ = sum(c in ("plus", "zero") for c in body)
        if so == 0:
            so_s, nm_hdr = 0, 0
        else:
            so_s, nm_hdr = so, nm
        a = f"-{so_s},{nm_hdr}" if not (omit_counts and nm_hdr == 1) else f"-{so_s}"
        b = f"+{sn},{np_}" if not (omit_counts and np_ == 1) else f"+{sn}"
        lines.append(f"@@ {a} {b} @@ fragZ{hi + 1}Z" + ["", " = -1;", " x +5,2 y", " int a[-3]; /* +12 */"][(hi + len(body)) % 4])
        ks = []
        for c in body:
            k += 1
            ks.append(k)
            text = f"tokZ{k}Z " + ("shared words here and there" if fam[k % len(fam)] else f"uniq{k}q{k * 7}")
            if long_mask[k % len(long_mask)]:
                text += " " + "long" * 12
            lines.append({"minus": "-", "plus": "+", "zero": " "}[c] + text)
            # the no-newline marker between a removed line and what follows (English, or as a localised diff prints it):
            # not a line of either file
            if c == "minus" and fam[(k + hi) % len(fam)] and long_mask[0] is False and k % 3 == 0:
                lines.append(["\\ No newline at end of file", "\\ Kein Zeilenumbruch am Dateiende", "\\ Pas de fin de ligne"][k % 3 if k % 2 else 1])
        hunks.append({"so": so, "sn": sn, "cls": body, "ks": ks})
    return ("\n".join(lines) + "\n").encode(), hunks


def run(tier):
    t0 = time.time()
    V = core.Verdict(PID)
    rnd = random.Random(core.seed())
    # design level: the counters as the code moves them (incl. the side-by-side compensation) show the true numbers
    mc = tlc.run_tlc("MC_Numbers", cfg="MC_Numbers", workers=4, coverage=False, timeout=900)
    tlc.require_ok(mc, "MC_Numbers")
    if mc.violated:
        V.drift.append(f"module=Numbers design-level {mc.violated} violated")
    for cfg in ("MC_Numbers_regression", "MC_Numbers_regression2"):
        reg = tlc.run_tlc("MC_Numbers", cfg=cfg, workers=2, coverage=False, timeout=600)
        if not reg.violated:
            raise core.ToolError(f"{cfg} (one arm of the side-by-side compensation removed) was not rejected")
    # subhunk shapes: every body of <= 5 lines over {minus, plus, zero} (thorough: <= 6)
    nmax = 5 if tier == "quick" else 6
    bodies = [list(b) for n in range(1, nmax + 1) for b in itertools.product(("minus", "plus", "zero"), repeat=n)]
    jobs = []
    # ("moved": the input is coloured as `git diff --color-moved` colours moved lines; delta keeps such lines as they came)
    modes = ["unified", "sbs", "sbs-wrap", "unified-narrow", "sbs-wrap-cross", "sbs-moved", "unified-moved"]
    for i, body in enumerate(bodies):
        reps = 3 if tier == "quick" else 8
        for rep in range(reps):
            r2 = random.Random(core.seed() * 104729 + i * 7 + rep)
            nh = r2.choice([1, 2, 3])
            bs = [body] + [r2.choice(bodies) for _ in range(nh - 1)]
            r2.shuffle(bs)
            st = [r2.choice(STARTS) for _ in bs]
            st = [(so if any(c in ("minus", "zero") for c in b) or so == 0 else so, sn) for b, (so, sn) in zip(bs, st)]
            # a zero-length old side is only possible when the hunk has no old lines
            st = [((so if so != 0 or not any(c in ("minus", "zero") for c in b) else 1),
                   (sn if sn != 0 or not any(c in ("plus", "zero") for c in b) else 1)) for b, (so, sn) in zip(bs, st)]
            mode = modes[(i + rep) % len(modes)]
            fmt = list(FORMATS)[(i // 3 + rep) % len(FORMATS)]
            long_mask = [r2.random() < (0.5 if "cross" in mode else 0.3) for _ in range(7)] if "wrap" in mode or "narrow" in mode else [False]
            fam = [r2.random() < 0.6 for _ in range(5)]
            jobs.append((bs, st, long_mask, r2.random() < 0.3, fam, mode, fmt))

    # an unchanged empty line written without its leading blank (git's diff.suppressBlankEmpty, GNU diff
    # --suppress-blank-empty): a recorded finding, see known_findings.json
    EMPTY_JOB = ([["zero", "zero", "minus", "plus", "zero"]], [(5, 7)], [False], False, [False], "unified", "default")
    jobs.append(EMPTY_JOB)

    def args_for(mode, fmt):
        if mode in ("unified", "unified-moved"):
            return gitskin.rs_args(200) + ["--line-numbers"] + FORMATS[fmt]
        if mode == "sbs-moved":
            return gitskin.rs_args(220) + ["--side-by-side"]
        if mode == "unified-narrow":
            return gitskin.rs_args(50) + ["--line-numbers"] + FORMATS[fmt]
        if mode == "sbs":
            return gitskin.rs_args(220) + ["--side-by-side"]
        if mode == "sbs-wrap-cross":      # both placeholders in both panels' formats
            return gitskin.rs_args(100) + ["--side-by-side", "--wrap-max-lines", "3", "--line-numbers-left-format", "{nm}:{np}|",
                                           "--line-numbers-right-format", "{nm}:{np}|"]
        return gitskin.rs_args(90) + ["--side-by-side", "--wrap-max-lines", "3"]

    def one(job):
        bs, st, long_mask, omit, fam, mode, fmt = job
        data, hunks = make_input(bs, st, long_mask, omit, fam)
        if job is EMPTY_JOB:
            lines = data.split(b"\n")
            lines[6] = b""                       # the second unchanged line becomes an empty line
            data = b"\n".join(lines)
        if mode.endswith("-moved"):
            # every second removed / added line in git's colours for moved lines (bold magenta / bold cyan)
            out = []
            for n_, ln in enumerate(data.split(b"\n")):
                if n_ % 2 == 0 and ln[:1] == b"-" and not ln.startswith(b"---"):
                    ln = b"\x1b[1;35m" + ln + b"\x1b[m"
                elif n_ % 2 == 0 and ln[:1] == b"+" and not ln.startswith(b"+++"):
                    ln = b"\x1b[1;36m" + ln + b"\x1b[m"
                out.append(ln)
            data = b"\n".join(out)
        return data, hunks, core.run_delta(args_for(mode, fmt), data)

    res = core.pmap(one, jobs)
    events = []
    for i, (job, (data, hunks, r)) in enumerate(zip(jobs, res)):
        mode = job[5]
        rows = r.out.split(b"\n")[:-1]
        hdr, out_rows = [], []
        for b in rows:
            txt = lexer.visible(b)
            if "fragZ" in txt:
                cells, _ = gitskin.kinded_cells(b)
                hdr.append(gitskin._num(cells, {"hhLine"}))
                continue
            if mode.startswith("unified"):
                p = gitskin.parse_unified_numbers(b)
                if p:
                    out_rows.append(dict(p, h=len(hdr)))
            else:
                p = gitskin.parse_sbs_row(b)
                if p:
                    show = lambda k, panel: "first" if k else ("cont" if panel[0].strip() else "none")
                    nm_, npl, nmr, np_ = p["nm"], 0, 0, p["np"]
                    if mode == "sbs-wrap-cross":
                        nm_, npl, nmr, np_ = gitskin.cross_numbers(b, 50)
                    out_rows.append({"kl": p["kl"], "nm": nm_, "kr": p["kr"], "np": np_, "npl": npl, "nmr": nmr, "h": len(hdr),
                                     "z": "zero" in p["lk"] or "zero" in p["rk"] or "lnZero" in {c[1] for c in gitskin.kinded_cells(b)[0]},
                                     "sl": show(p["kl"], p["lp"]), "sr": show(p["kr"], p["rp"])})
        events.append({"run": i, "mode": "unified" if mode.startswith("unified") else "sbs", "hunks": hunks, "rows": out_rows,
                       "fmt": [True, True, True, True] if mode == "sbs-wrap-cross" else [True, False, False, True],
                       "hdr": hdr, "code": 999 if r.timed_out else r.code})
    n = max(1, min(6, len(events) // 1500 + 1))
    outs = core.pmap(lambda ch: tlc.validate_trace("Trace_Numbers", ch, heap="3g"), [events[i::n] for i in range(n)], jobs=n)
    failed = [f for fl, r in outs for f in fl]
    drifts = [x for fl, r in outs for t, v in r.printed if t == "DRIFT" for x in (v if isinstance(v, list) else [])]
    for d in drifts[:5]:
        bs, st, long_mask, omit, fam, mode, fmt = jobs[d]
        V.drift.append(f"module=Numbers counters predict other numbers than shown: mode={mode} hunks={'|'.join(''.join(c[0] for c in b) for b in bs)} starts={st}")
    states = sum(r.distinct for fl, r in outs)
    log(f"[{PID}] {len(events)} rendered sections judged by TLC (Trace_Numbers), {len(failed)} rejected")
    for f in failed:
        bs, st, long_mask, omit, fam, mode, fmt = jobs[f["run"]]
        data, hunks, r = res[f["run"]]
        shape = "|".join("".join(c[0] for c in b) for b in bs)
        if jobs[f["run"]] is EMPTY_JOB:
            V.violation("empty-context-line", "an unchanged empty line written without its leading blank is not counted: the numbers after it are one too small",
                        {"run": r.to_json(), "failure": f})
            continue
        V.violation(f"{f['why']}:{mode}:{fmt}:{shape}:{st}", f"{f['why']} (row {f['row']}) in {mode}/{fmt} for hunks {shape} starting at {st}",
                    {"bodies": bs, "starts": st, "mode": mode, "format": fmt, "run": r.to_json(), "failure": f})
    rc = V.finish()
    core.write_evidence(PID, tier, "model_checking", {
        "states": mc.distinct, "transitions": mc.generated, "monitor_states": states, "drift": len(drifts),
        "regression_models_rejected": True,
        "traces_validated_against_impl": len(events), "evaluations": len(events),
        "distinct_nontrivial": len({json.dumps(j[:2]) + j[5] + j[6] for j in jobs}),
        "rule": "design level: Numbers (counters of LineNumbersData, who increments them, the side-by-side compensation) shows the true "
                "numbers on every sequence of blocks of <= 7 rows with wrapping over <= 3 rows; binary: " f"every hunk body of <= {nmax} lines over (removed, added, unchanged), placed in files of 1-3 hunks with start positions "
                f"drawn from {STARTS}, omitted counts, paired/unpaired line contents and long (wrapping) lines, in unified (two widths) "
                "and side-by-side (with and without wrapping) view and four number formats; TLC compares every displayed number with "
                "the true one and requires continuation rows to be blank",
        "samples": [{"bodies": jobs[i][0], "starts": jobs[i][1], "mode": jobs[i][5], "format": jobs[i][6],
                     "rows": events[i]["rows"][:6]} for i in (0, len(jobs) // 2, len(jobs) - 1)],
        "exhaustive": False,
    }, time.time() - t0, len(V.violations),
        ["numbers are read from spans painted with the reserved line-number styles; the line a number belongs to is identified by a "
         "unique token in its text", "the unbounded-start argument (Apalache inductive invariant) is not attempted in this round"])
    return rc


def replay(path):
    return core.generic_replay(path)
