"""C10 - file sections render independently of their neighbours; output is deterministic."""
import json
import random
import time

from .. import core, gitskin, lexer, stream, tlc
from ..core import log

PID = "C10"

MODES = {
    "rs": (gitskin.RS_ARGS, True),
    "rs+numbers": (gitskin.RS_ARGS + ["--line-numbers"], True),
    "side-by-side": (["--no-gitconfig", "--side-by-side", "--width", "120"], False),
    "defaults": (["--no-gitconfig", "--width", "80"], False),
    "diff-so-fancy": (["--no-gitconfig", "--diff-so-fancy", "--width", "80"], False),
    "navigate+numbers": (["--no-gitconfig", "--navigate", "--line-numbers", "--width", "80"], False),
}


def run(tier):
    t0 = time.time()
    V = core.Verdict(PID)
    rnd = random.Random(core.seed())
    # design level: Boundary (a diff line acts as end-of-input followed by a fresh start) for every history
    mc = tlc.run_tlc("MC_Stream", cfg=f"MC_Stream_{tier}", workers=8, coverage=False, heap="8g", timeout=3400)
    tlc.require_ok(mc, "MC_Stream")
    if mc.violated:
        V.drift.append(f"module=Impl_Stream design-level {mc.violated} violated")
    reg = tlc.run_tlc("MC_Stream", cfg="MC_Stream_noD1", workers=4, coverage=False, timeout=600)
    if reg.violated != "Boundary":
        raise core.ToolError("regression config MC_Stream_noD1 did not violate Boundary: design-level check is vacuous")
    sec = tlc.run_tlc("MC_Stream", cfg=f"MC_Stream_sections_{tier}", workers=8, coverage=False, heap="8g", timeout=3400)
    tlc.require_ok(sec, "MC_Stream sections")
    sections = [v for t, v in sec.printed if t == "SECTION"]
    # sections of a combined diff, with conflict regions (with and without an ancestor part)
    secc = tlc.run_tlc("MC_Stream", cfg="MC_Stream_sections_cc", workers=4, coverage=False, heap="4g", timeout=1800)
    tlc.require_ok(secc, "MC_Stream sections (combined)")
    cc_sections = [v for t, v in secc.printed if t == "SECTION"]
    if len(cc_sections) < 100:
        raise core.ToolError(f"only {len(cc_sections)} combined-diff sections from MC_Stream_sections_cc")
    sections += cc_sections
    log(f"[{PID}] design level: {mc.distinct}+{sec.distinct} distinct states; {len(sections)} complete sections")

    def cls(s):
        if s[0]["kd"] == "cc":
            # (a conflict region with an ancestor part, without one, or none at all)
            cs = {l["c"] for l in s}
            return ("cc", s[-1]["c"] + ("+anc" if "m_anc" in cs else "+conflict" if "m_ours" in cs else ""))
        return (s[0]["kd"], s[-1]["c"])
    by = {}
    for s in sections:
        by.setdefault(cls(s), []).append(s)
    classes = sorted(by)
    # every (kind, last line class) of A x every (kind, last class) of B at least once
    pairs = []
    for a in classes:
        for b in classes:
            pairs.append((rnd.choice(by[a]), rnd.choice(by[b])))
    extra = 600 if tier == "quick" else 12000
    for _ in range(extra):
        pairs.append((rnd.choice(sections), rnd.choice(sections)))
    triples = [(rnd.choice(sections), rnd.choice(sections), rnd.choice(sections))
               for _ in range(200 if tier == "quick" else 5000)]
    # a short middle section (no hunks: a submodule log line, an empty / mode-only / binary / renamed file) between
    # every class and two kinds of follower: what the first section still owes must not resurface after the second
    short = [c for c in classes if min(len(x) for x in by[c]) <= 4]
    followers = [c for c in classes if c[0] in ("mod", "modeonly")][:3]
    for a in classes:
        for m_ in short:
            for b in followers:
                triples.append((rnd.choice(by[a]), min(by[m_], key=len), rnd.choice(by[b])))
    log(f"[{PID}] {len(classes)} section classes, {len(pairs)} pairs, {len(triples)} triples")

    jobs = []
    for i, pr in enumerate(pairs + triples):
        mode = list(MODES)[i % len(MODES)] if i >= len(classes) ** 2 else ["rs", "side-by-side", "defaults"][i % 3]
        jobs.append((pr, mode))

    intern = gitskin.Interner()
    import threading
    lock = threading.Lock()

    def rows_of(out):
        rows, tail = lexer.split_rows(out)
        if tail:
            rows.append(tail)
        with lock:
            return [intern(r) for r in rows]

    NAMES = [None, {1: "yarn.lock", 2: "Cargo.lock", 3: "x.lock"}, {1: "README.txt", 2: "CMakeLists.txt", 3: "notes.txt"},
             {1: "Makefile", 2: "makefile.rs", 3: "a.mk"}, {1: "a.h", 2: "b.h", 3: "c.hpp"}]

    def one(job):
        parts, mode = job
        args, rs = MODES[mode]
        outs, k0 = [], 0
        datas = []
        # per-pair skin: hunk positions (small / beyond 10^4: gutter width) and, where rows are not parsed,
        # file names whose language is decided by the whole name or by the extension
        r3 = random.Random(core.seed() * 131 + __import__("zlib").crc32(json.dumps(parts).encode()) % 100003)
        names = r3.choice(NAMES[1:]) if (not rs and r3.random() < 0.6) else None
        for h in parts:
            # each section has its own hunk positions: a neighbour with six-digit line numbers must not
            # change how this one is laid out
            skin = {"start": r3.choice([10, 10, 9990, 123456])}
            if names:
                skin["names"] = names
            data, texts = gitskin.concretise(h, k0=k0, skin=skin)
            k0 += len(h)
            datas.append(data)
            outs.append(core.run_delta(args, data))
        whole = b"".join(datas)
        r1 = core.run_delta(args, whole)
        r2 = core.run_delta(args, whole)
        return (parts, mode, outs, r1, r2, whole)

    res = core.pmap(one, jobs)
    events, sevents, smeta = [], [], []
    for i, (parts, mode, outs, r1, r2, whole) in enumerate(res):
        x = []
        for o in outs[:-1]:
            x += rows_of(o.out)
        events.append({"run": i, "kind": "concat", "x": x, "y": rows_of(outs[-1].out), "z": rows_of(r1.out), "ex": []})
        events.append({"run": i, "kind": "equal", "x": rows_of(r1.out), "y": rows_of(r2.out), "z": [], "ex": []})
        if MODES[mode][1]:
            h = [l for p in parts for l in p]
            data, texts = gitskin.concretise(h, skin={"start": 10})
            ev, rows = stream.run_event(len(sevents), h, texts, r1, {"keep": False, "tabs": 8, "colorOnly": False,
                                                                    "buf": 32, "hhFile": True, "rel": False, "wd": False, "commitRaw": False}, skin={}, data=data)
            sevents.append(ev)
            smeta.append(i)
    # determinism of delta's own report of its configuration (fresh hash seeds per process)
    SC = [["--minus-style", "9 13", "--plus-style", "brightgreen 5"], ["--zero-style", "8 bold 15"],
          ["--line-numbers-minus-style", "12", "--file-style", "magenta 11", "--hunk-header-style", "10 14"], []]
    sc_first = len(res)
    for j, extra_args in enumerate(SC):
        outs = core.pmap(lambda _: core.run_delta(["--no-gitconfig", "--show-config"] + extra_args), range(8))
        for rr in outs[1:]:
            events.append({"run": sc_first + j, "kind": "equal", "x": rows_of(outs[0].out), "y": rows_of(rr.out),
                           "z": [], "ex": []})
        res.append(([], "show-config " + " ".join(extra_args), [], outs[0], outs[1], b""))
    failed, r = tlc.validate_trace("Trace_Rel", events)
    sfailed, ns = stream.validate_runs(sevents)
    crashes = [i for i, x in enumerate(res) if any(o.code != 0 for o in x[2] + [x[3], x[4]])]
    log(f"[{PID}] {len(events)} relational judgements by TLC, {len(failed)} rejected; {ns} runs validated against Obs_Stream, "
        f"{len(sfailed)} rejected; {len(crashes)} runs with non-zero exit")
    for f in failed:
        parts, mode, outs, r1, r2, whole = res[f["run"]]
        shp = " || ".join(stream.shape(p) for p in parts)
        what = ("concatenation law broken" if f["kind"] == "concat" else "two runs on the same input differ")
        if mode.startswith("show-config"):
            shp = mode
        V.violation(f"{f['kind']}:{mode}:{shp[:400]}", f"{what} at row {f['at']} in mode {mode} for sections [{shp[:300]}]",
                    # (two runs that differ are the finding itself: not to be "confirmed" by a third)
                    {"sections": parts, "mode": mode, "run": r1.to_json(), "also": [o.to_json() for o in outs[:3]], "failure": f, "no_confirm": f["kind"] == "equal"})
    for f in sfailed:
        parts, mode, outs, r1, r2, whole = res[smeta[f["run"]]]
        shp = " || ".join(stream.shape(p) for p in parts)
        V.violation(f"rows:{f['wt']}:{f['gt']}:{shp[:400]}", f"output of [{shp[:300]}] rejected by Obs_Stream: wanted "
                    f"{f['wt']} got {f['gt']}", {"sections": parts, "mode": mode, "run": r1.to_json(), "failure": f})
    rc = V.finish()
    core.write_evidence(PID, tier, "model_checking", {
        "states": mc.distinct + sec.distinct, "transitions": mc.generated + sec.generated,
        "traces_validated_against_impl": len(events) + ns, "evaluations": len(res) * 4,
        "distinct_nontrivial": len({json.dumps(x[0]) + x[1] for x in res}),
        "rule": "complete single sections enumerated by TLC (MC_Stream_sections); every ordered pair of (kind, last-line class) "
                "classes once plus seeded random pairs and triples, across modes; for each: A, B, (C,) and the concatenation are "
                "run and TLC judges rows(AB) = rows(A) o rows(B) and run-twice equality; distinct = distinct (sections, mode)",
        "sections": len(sections), "section_classes": len(classes), "modes": sorted(MODES),
        "regression_model_rejected": reg.violated, "drift": len(V.drift),
        "samples": [{"sections": [stream.shape(p) for p in x[0]], "mode": x[1], "stdin": x[5].decode()[:500]}
                    for x in rnd.sample(res, 3)],
        "exhaustive": False,
    }, time.time() - t0, len(V.violations),
        ["sections are those of Env_Git; submodule sections are not generated",
         "byte equality of rows is computed by the harness (interning), the laws are evaluated by TLC"])
    return rc


def replay(path):
    return core.generic_replay(path)
