"""C13 - option values resolve by the documented precedence, deterministically."""
import json
import os
import random
import re
import time

from .. import core, lexer, tlc
from ..core import log

PID = "C13"
REAL = {"A": "alpha", "B": "beta", "C": "gamma", "dsf": "diff-so-fancy", "dh": "diff-highlight", "nav": "navigate",
        "sbs": "side-by-side", "ln": "line-numbers"}
VAL = {"cli": "21", "gcp": "22", "main": "23", "c_A": "24", "c_B": "25", "c_C": "26", "c_dsf": "27", "c_nav": "28"}
# a second option of another type in the code (Option<String>), which no built-in feature sets: width
VALW = {k: "1" + v for k, v in VAL.items()}


def concretise(p, workdir, idx):
    """placement -> (argv, env). The gitconfig is generated into workdir."""
    OPT, VAL = ("minus-style", globals()["VAL"]) if p.get("optB", True) else ("width", VALW)
    cfg = ["[delta]"]
    if p["main"]:
        cfg.append(f"    {OPT} = {VAL['main']}")
    if p["mainF"]:
        cfg.append("    features = " + " ".join(REAL[f] for f in p["mainF"]))
    for f in p["flagsMain"]:
        cfg.append(f"    {REAL[f]} = true")
    for f in ("A", "B", "C", "dsf", "nav"):
        sec = []
        if f in p["custom"]:
            sec.append(f"    {OPT} = {VAL['c_' + f]}")
        if f == "A" and p["childA"]:
            sec.append("    features = " + " ".join(REAL[c] for c in p["childA"]))
        if sec:
            cfg += [f'[delta "{REAL[f]}"]'] + sec
    path = os.path.join(workdir, f"cfg{idx}.gitconfig")
    with open(path, "w") as fh:
        fh.write("\n".join(cfg) + "\n")
    # --no-gitconfig: with and without a --config FILE next to it (nothing in FILE may count)
    argv = (["--no-gitconfig"] + (["--config", path] if p.get("cfgFile") else [])) if p["noGit"] else ["--config", path]
    env = {}
    if p["cli"]:
        argv += ["--" + OPT, VAL["cli"]]
    if p["hasCliF"]:
        argv += ["--features", " ".join(REAL[f] for f in p["cliF"])]
    for f in p["flagsCli"]:
        argv += ["--" + REAL[f]]
    if p["gcp"]:
        # (git appends to the variable: `git -c k=a -c k=b` and nested invocations give the key twice, and the last one counts)
        env["GIT_CONFIG_PARAMETERS"] = (f"'delta.{OPT}=99' " if idx % 3 == 0 else "") + f"'delta.{OPT}={VAL['gcp']}'"
    if p["envMode"] != "none":
        env["DELTA_FEATURES"] = ("+" if p["envMode"] == "plus" else "") + " ".join(REAL[f] for f in p["envF"])
    return argv + ["--show-config"], env, path


def lexer_strip(b):
    return re.sub(rb"\x1b\[[0-9;]*m", b"", b).decode("utf-8", "replace")


def shown_ln(out):
    for line in lexer.strip_ansi(out).decode("utf-8", "replace").split("\n"):
        m = re.match(r"^\s*line-numbers\s*=\s?(true|false)\s*$", line)
        if m:
            return m.group(1) == "true"
    return None


def shown_value(out, opt="minus-style"):
    for line in lexer.strip_ansi(out).decode("utf-8", "replace").split("\n"):
        m = re.match(r"^\s*" + opt + r"\s*=\s?(.*)$", line)
        if m:
            return m.group(1).strip()
    return None


def run(tier):
    t0 = time.time()
    V = core.Verdict(PID)
    rnd = random.Random(core.seed())
    mc = tlc.run_tlc("MC_Options", cfg="MC_Options_emit", workers=8, coverage=False, timeout=1800, heap="8g")
    tlc.require_ok(mc, "MC_Options")
    if mc.violated:
        V.drift.append(f"module=Options design-level {mc.violated} violated")
    reg = tlc.run_tlc("MC_Options", cfg="MC_Options_regression", workers=4, coverage=False, timeout=900)
    if reg.violated != "Deterministic":
        raise core.ToolError("MC_Options_regression (HashMap order) did not violate Deterministic")
    reg2 = tlc.run_tlc("MC_Options", cfg="MC_Options_regression2", workers=4, coverage=False, timeout=900)
    if reg2.violated != "LnRight":
        raise core.ToolError("MC_Options_regression2 (no recursion into built-in features without a gitconfig) did not violate LnRight")
    placements = [v["p"] for t, v in mc.printed if t == "REPLAY"]
    log(f"[{PID}] design level: {mc.distinct} states ({len(placements)} placements): procedural result within the documented "
        f"precedence and independent of flag order")
    n = 3000 if tier == "quick" else 40000
    sel = rnd.sample(placements, min(n, len(placements)))
    # always include the placements in which two builtin flags compete in gitconfig (determinism)
    two = [p for p in placements if len(p["flagsMain"]) == 2 and not p["cli"] and not p["main"] and not p["noGit"]]
    sel += rnd.sample(two, min(len(two), 300))
    # strata that a uniform sample would hardly meet: a feature listed twice, a custom section named like a builtin
    # feature that does not set the option itself, --no-gitconfig with gitconfig sources set
    dup = lambda s_: len(set(s_)) < len(s_)
    strata = [
        [p for p in placements if (dup(p["cliF"]) or dup(p["mainF"])) and not p["noGit"]],
        [p for p in placements if "nav" in p["custom"]],
        [p for p in placements if not p["optB"]],
        [p for p in placements if p["noGit"] and (p["gcp"] or p["main"] or p["custom"])],
        [p for p in placements if "sbs" in p["cliF"] + p["mainF"] + p["envF"] + p["childA"] + p["flagsCli"] + p["flagsMain"] or "ln" in p["cliF"]],
    ]
    for st in strata:
        sel += rnd.sample(st, min(len(st), 600 if tier == "quick" else 6000))
    sel = [dict(p, cfgFile=bool(p["noGit"] and i % 2 == 0)) for i, p in enumerate(sel)]
    work = os.path.join(core.scratch(), "c13")
    os.makedirs(work, exist_ok=True)
    # calibration of the strings --show-config prints for each source (mechanical)
    names = {}
    for src, v in VAL.items():
        r = core.run_delta(["--no-gitconfig", "--minus-style", v, "--show-config"], b"")
        names[shown_value(r.out)] = src
    for flag, src in (("--diff-so-fancy", "b_dsf"), ("--diff-highlight", "b_dh"), (None, "default")):
        r = core.run_delta(["--no-gitconfig"] + ([flag] if flag else []) + ["--show-config"], b"")
        names[shown_value(r.out)] = src
    # (in side-by-side view the built-in default of the option is spelt differently: 'syntax' instead of 'normal')
    r = core.run_delta(["--no-gitconfig", "--side-by-side", "--show-config"], b"")
    names.setdefault(shown_value(r.out), "default")
    if len(set(names.values())) != len(VAL) + 3:
        raise core.ToolError(f"calibration of --show-config values is ambiguous: {names}")
    namesw = {v: k for k, v in VALW.items()}
    namesw[shown_value(core.run_delta(["--no-gitconfig", "--show-config"], b"").out, "width")] = "default"

    def one(ip):
        i, p = ip
        argv, env, path = concretise(p, work, i)
        reps = (3 if tier == "quick" else 6) if len(p["flagsMain"]) + len(p["flagsCli"]) >= 2 else 2
        vals, lns = [], []
        for _ in range(reps):
            r = core.run_delta(argv, b"", env=env)
            opt, nm = ("minus-style", names) if p.get("optB", True) else ("width", namesw)
            vals.append(nm.get(shown_value(r.out, opt), "unknown:" + str(shown_value(r.out, opt))) if r.code == 0 else f"exit:{r.code}")
            lns.append(bool(shown_ln(r.out)))
        os.unlink(path)
        return vals, lns

    res = core.pmap(one, list(enumerate(sel)))
    events = [{"run": i, "p": p, "values": vals, "ln": lns} for i, (p, (vals, lns)) in enumerate(zip(sel, res))]
    res = [v for v, l in res]
    n_sh = max(1, min(6, len(events) // 1500 + 1))
    outs = core.pmap(lambda ch: tlc.validate_trace("Trace_Options", ch, heap="3g"), [events[i::n_sh] for i in range(n_sh)], jobs=n_sh)
    failed = [f for fl, r in outs for f in fl]
    drifts = [x for fl, r in outs for t, v in r.printed if t == "DRIFT" for x in (v if isinstance(v, list) else [])]
    for d in drifts[:5]:
        V.drift.append(f"module=Options placement {sel[d]} resolved to {res[d]} (model predicts otherwise)")
    log(f"[{PID}] {len(drifts)} placements resolved differently from Impl (drift)")
    log(f"[{PID}] {len(events)} placements resolved by the real binary and judged by TLC (Trace_Options), {len(failed)} rejected")
    for f in failed:
        p, vals = sel[f["run"]], res[f["run"]]
        short = {k: v for k, v in p.items() if v not in (False, [], "none")}
        V.violation(f"{f['why']}:{json.dumps(short, sort_keys=True)}", f"{f['why']}: placement {short} resolved to {vals}",
                    {"placement": p, "values": vals})
    # boolean options overridden through GIT_CONFIG_PARAMETERS, in every spelling git accepts for a boolean
    TRUE_S, FALSE_S = ["true", "yes", "on", "1", "True", "YES", "On"], ["false", "no", "off", "0", "False", "NO", "Off"]
    bjobs = []
    for flag in ("line-numbers", "side-by-side", "navigate", "keep-plus-minus-markers"):
        for gcp in ("none", "true", "false"):
            for filev in ("none", "true", "false"):
                for feat in ("none", "true"):
                    for sp in range(len(TRUE_S) if gcp != "none" else 1):
                        bjobs.append((flag, gcp, filev, feat, sp))
    if tier == "quick":
        bjobs = rnd.sample(bjobs, 160)
    bdir = os.path.join(core.scratch(), "c13bool")
    os.makedirs(bdir, exist_ok=True)

    def bone(ij):
        i, (flag, gcp, filev, feat, sp) = ij
        path = os.path.join(bdir, f"cfg{i}")
        with open(path, "w") as fh:
            fh.write("[delta]\n" + (f"    {flag} = {filev}\n" if filev != "none" else "") + ("    features = featq\n" if feat != "none" else "")
                     + (f'[delta "featq"]\n    {flag} = {feat}\n' if feat != "none" else ""))
        env = {}
        if gcp != "none":
            # (every other time the key is there twice, in the two formats git writes: the last occurrence counts)
            first = f"'delta.{flag}={(FALSE_S if gcp == 'true' else TRUE_S)[sp]}' " if i % 2 else ""
            env["GIT_CONFIG_PARAMETERS"] = first + f"'delta.{flag}'='{(TRUE_S if gcp == 'true' else FALSE_S)[sp]}'"
        r = core.run_delta(["--config", path, "--show-config"], b"", env=env, prefix_args=())
        m = re.search(r"^\s*" + re.escape(flag) + r"\s*=\s*(true|false)\s*$", lexer_strip(r.out), re.M)
        return r, (m.group(1) == "true") if m else None
    bres = core.pmap(bone, list(enumerate(bjobs)))
    bevents = []
    for i, ((flag, gcp, filev, feat, sp), (r, shown)) in enumerate(zip(bjobs, bres)):
        if shown is None:
            raise core.ToolError(f"--show-config did not report {flag}: exit {r.code} {r.err[:200]!r}")
        bevents.append({"run": i, "gcp": gcp, "file": filev, "feat": feat, "shown": shown})
    bfailed, btr = tlc.validate_trace("Trace_BoolOverride", bevents)
    log(f"[{PID}] {len(bevents)} boolean overrides (GIT_CONFIG_PARAMETERS, git's spellings) judged by TLC, {len(bfailed)} rejected")
    for f in bfailed:
        flag, gcp, filev, feat, sp = bjobs[f["run"]]
        spelled = (TRUE_S if gcp == "true" else FALSE_S)[sp] if gcp != "none" else "-"
        V.violation(f"bool-override:{flag}:{gcp}:{filev}:{feat}:{spelled.lower()}", f"--{flag}: GIT_CONFIG_PARAMETERS says '{spelled}', the file's [delta] section "
                    f"{filev}, an enabled feature {feat}: --show-config reports {bres[f['run']][1]}", {"run": bres[f["run"]][0].to_json()})
    # the colour mode, an option spread over two flags (light / dark): a flag on the command line decides, whatever gitconfig sources
    # say about the other flag; otherwise each flag resolves like any boolean
    def theme_of(out):
        m = re.search(r"^\s*syntax-theme\s*=\s*(\S.*?)\s*$", lexer_strip(out), re.M)
        return m.group(1) if m else None
    themes = {theme_of(core.run_delta(["--no-gitconfig", f"--{m}", "--show-config"], b"").out): m for m in ("light", "dark")}
    defmode = themes.get(theme_of(core.run_delta(["--no-gitconfig", "--show-config"], b"").out))
    if len(themes) != 2 or None in themes or defmode is None:
        raise core.ToolError(f"calibration of the colour mode failed: {themes}")
    T3 = ("none", "true", "false")
    cjobs = [(cli, a, b, c, d, e, f) for cli in ("none", "light", "dark") for a in T3 for b in T3 for c in T3 for d in T3 for e in T3 for f in T3]
    few = [j for j in cjobs if sum(x != "none" for x in j[1:]) <= 2]
    cjobs = few + rnd.sample(cjobs, 150 if tier == "quick" else len(cjobs))
    if tier == "quick":
        cjobs = [j for j in few if j[0] != "none" and sum(x != "none" for x in j[1:]) <= 1] + rnd.sample(few, 120) + cjobs[-150:]

    def cone(ij):
        i, (cli, gl, gd, fl, fd, tl, td) = ij
        path = os.path.join(bdir, f"mode{i}")
        with open(path, "w") as fh:
            fh.write("[delta]\n" + (f"    light = {fl}\n" if fl != "none" else "") + (f"    dark = {fd}\n" if fd != "none" else "")
                     + ("    features = featm\n" if (tl, td) != ("none", "none") else "")
                     + ('[delta "featm"]\n' + (f"    light = {tl}\n" if tl != "none" else "") + (f"    dark = {td}\n" if td != "none" else "")
                        if (tl, td) != ("none", "none") else ""))
        env = {}
        gcp = [f"'delta.light={gl}'"] * (gl != "none") + [f"'delta.dark={gd}'"] * (gd != "none")
        if gcp:
            env["GIT_CONFIG_PARAMETERS"] = " ".join(gcp)
        r = core.run_delta(["--config", path] + ([f"--{cli}"] if cli != "none" else []) + ["--show-config"], b"", env=env, prefix_args=(),
                           allow_usage_error=True)
        return r, (themes.get(theme_of(r.out), "error") if r.code == 0 else "error")
    cres = core.pmap(cone, list(enumerate(cjobs)))
    cevents = [{"run": i, "cli": j[0], "gcpL": j[1], "gcpD": j[2], "fileL": j[3], "fileD": j[4], "featL": j[5], "featD": j[6], "def": defmode,
                "shown": shown} for i, (j, (r, shown)) in enumerate(zip(cjobs, cres))]
    cfailed, ctr = tlc.validate_trace("Trace_ColourMode", cevents)
    log(f"[{PID}] {len(cevents)} colour-mode placements (light / dark over command line, override, file, feature) judged by TLC, {len(cfailed)} rejected")
    for f in cfailed:
        j = cjobs[f["run"]]
        V.violation("colour-mode:" + ":".join(j), f"colour mode: command line {j[0]}, GIT_CONFIG_PARAMETERS light={j[1]} dark={j[2]}, [delta] light={j[3]} "
                    f"dark={j[4]}, enabled feature light={j[5]} dark={j[6]}: --show-config reports {cres[f['run']][1]} "
                    f"({cres[f['run']][0].err[:80]!r})", {"run": cres[f["run"]][0].to_json()})
    # trees of custom features (depth up to 3): which section's value wins
    NAMES = ["A", "B", "C", "D", "E"]
    njobs = []
    for i in range(150 if tier == "quick" else 1500):
        r2 = random.Random(core.seed() * 2699 + i)
        order = r2.sample(NAMES, len(NAMES))
        kids = {n: [] for n in NAMES}
        top = [order[0]] + ([order[1]] if r2.random() < 0.4 else [])
        placed = list(top)
        for n in order:
            if n in placed:
                continue
            parent = r2.choice(placed)          # every feature hangs under exactly one other: a tree
            kids[parent].insert(r2.randrange(len(kids[parent]) + 1), n)
            placed.append(n)
        sets = [n for n in NAMES if r2.random() < 0.5]
        njobs.append((top, kids, sets))

    def none_(ij):
        i, (top, kids, sets) = ij
        path = os.path.join(bdir, f"nest{i}")
        with open(path, "w") as fh:
            fh.write("[delta]\n    features = " + " ".join("feat" + n for n in top) + "\n")
            for n in NAMES:
                fh.write(f'[delta "feat{n}"]\n' + (f"    features = {' '.join('feat' + k for k in kids[n])}\n" if kids[n] else "")
                         + (f"    minus-style = {100 + NAMES.index(n)}\n" if n in sets else ""))
        r = core.run_delta(["--config", path, "--show-config"], b"", prefix_args=())
        m = re.search(r"^\s*minus-style\s*=\s*(\S.*?)\s*$", lexer_strip(r.out), re.M)
        return r, (m.group(1) if m else None)
    nres = core.pmap(none_, list(enumerate(njobs)))
    nevents = []
    for i, ((top, kids, sets), (r, val)) in enumerate(zip(njobs, nres)):
        if val is None:
            raise core.ToolError(f"--show-config did not report minus-style: exit {r.code} {r.err[:200]!r}")
        shown = NAMES[int(val) - 100] if val.isdigit() and 100 <= int(val) < 100 + len(NAMES) else ""
        nevents.append({"run": i, "top": top, "kids": kids, "sets": sets, "shown": shown})
    nfailed, ntr = tlc.validate_trace("Trace_Nested", nevents)
    log(f"[{PID}] {len(nevents)} trees of features resolved by the real binary and judged by TLC (Trace_Nested), {len(nfailed)} rejected")
    for f in nfailed:
        top, kids, sets = njobs[f["run"]]
        V.violation(f"nested:{top}:{json.dumps(kids, sort_keys=True)}:{sets}", f"[delta] features = {' '.join(top)} with nested lists "
                    f"{ {k: v for k, v in kids.items() if v} }, option set by {sets}: the value of feature '{nres[f['run']][1]}' is used, the "
                    f"documented order gives feature {f['want'] or '(none: the default)'}", {"run": nres[f["run"]][0].to_json()})
    rc = V.finish()
    core.write_evidence(PID, tier, "model_checking", {
        "states": mc.distinct, "transitions": mc.generated, "traces_validated_against_impl": len(events),
        "evaluations": sum(len(v) for v in res), "distinct_nontrivial": len({json.dumps(p, sort_keys=True) for p in sel}),
        "rule": "placements of option minus-style over command line, GIT_CONFIG_PARAMETERS, [delta] section, custom feature sections "
                "(incl. one named like a builtin), nested features, [delta] features lists, --features, DELTA_FEATURES (plain and '+'), "
                "builtin flags on the command line and in gitconfig, --no-gitconfig: the whole lattice is checked on the model; a seeded "
                "sample (plus every two-flags placement) is resolved by the real binary via --show-config in repeated fresh processes",
        "lattice_size": len(placements), "regression_model_rejected": reg.violated,
        "samples": [{"placement": {k: v for k, v in sel[i].items() if v not in (False, [], "none")}, "values": res[i]} for i in (0, 1, 2)],
        "exhaustive": False,
    }, time.time() - t0, len(V.violations),
        ["one option (minus-style) stands for all: option resolution code is shared (set_options!)",
         "where the documentation is silent (place of the [delta] features list relative to flags and to '+' DELTA_FEATURES, order "
         "inside one '+' value, whether --features replaces the [delta] list) every order is accepted"])
    return rc


def replay(path):
    return core.generic_replay(path)
