"""C06 - within-line emphasis marks exactly what changed between paired lines."""
import itertools
import json
import random
import time

from .. import core, gitskin, lexer, stream, tlc
from ..core import log

PID = "C06"
L = lambda c, f=0, g=0, kd="": {"c": c, "f": f, "g": g, "kd": kd}
HDR = [L("diff", 1, 1, "mod"), L("index"), L("mmm", 1), L("ppp", 1)]
RE_ARGS = {"w": [], "dot": ["--word-diff-regex", "."], "S": ["--word-diff-regex", "\\S+"]}
THR_ARGS = {0: ["--max-line-distance", "0"], 60: ["--max-line-distance", "0.6"], 100: ["--max-line-distance", "1.0"]}
TABS0 = False


def strings(alpha, n):
    out = [""]
    for k in range(1, n + 1):
        out += ["".join(t) for t in itertools.product(alpha, repeat=k)]
    return out


def render_batch(cases, thr, re, sbs=False, extra=()):
    """cases: list of (minus_lines, plus_lines). Returns per case the rows of its hunk."""
    hist = list(HDR)
    table = {}
    spans = []
    for ms, ps in cases:
        hist.append(L("hh"))
        start = len(hist)
        for s in ms:
            hist.append(L("minus"))
            table[len(hist)] = s
        for s in ps:
            hist.append(L("plus"))
            table[len(hist)] = s
        spans.append(start)
    data, texts = gitskin.concretise(hist, payload=lambda k, c: table[k])
    args = (gitskin.rs_args(2000) if any(len(x) > 150 for c in cases for side in c for x in side) else gitskin.RS_ARGS) \
        + THR_ARGS[thr] + RE_ARGS[re] + (["--side-by-side"] if sbs else []) + list(extra)
    r = core.run_delta(args, data, timeout=60)
    intern = gitskin.Interner()
    rows = [gitskin.parse_row(b, intern) for b in r.out.split(b"\n")[:-1]]
    # split at hunk headers
    hunks, cur = [], None
    for x in rows:
        if x["t"] == "hunkHdr":
            cur = []
            hunks.append(cur)
        elif cur is not None and x["t"] not in ("fileHdr",):
            cur.append(x)
    # drop the decoration blank row that precedes the next hunk header
    for hk in hunks[:-1]:
        if hk and hk[-1]["t"] == "blank":
            hk.pop()
    return r, hunks


def line_rec(row, side):
    t, e = [], []
    paired = False
    for g, kd in zip_cells(row):
        if kd in gitskin.LN_KINDS:
            continue
        t.append(ord(g[0]))
        if kd in ("minusEmph", "plusEmph"):
            e.append(1)
            paired = True
        elif kd == "wsErr":
            e.append(2)
        else:
            e.append(0)
            if kd in ("minusNon", "plusNon"):
                paired = True
    return {"t": t, "e": e, "p": paired}


def zip_cells(row):
    # expand kinds per grapheme from the parsed row (text and kinds are aligned span by span)
    out = []
    for (g, kd) in row["_cells"]:
        out.append((g, kd))
    return out


def attach_cells(rows_bytes):
    pass


def run(tier):
    t0 = time.time()
    V = core.Verdict(PID)
    rnd = random.Random(core.seed())
    # design level: the transcription of delta's alignment table, annotation and greedy pairing (Edits) obeys the laws
    design = {}
    for cfg in ["MC_Edits", "MC_Edits_multi"] + (["MC_Edits_multi_thorough"] if tier == "thorough" else []):
        mc = tlc.run_tlc("MC_Edits", cfg=cfg, workers=8, coverage=False, heap="6g", timeout=3400)
        tlc.require_ok(mc, cfg)
        if mc.violated:
            V.drift.append(f"module=Edits design-level {mc.violated} violated in {cfg}")
        design[cfg] = mc.distinct
    S4 = strings("ab ", 4)
    pairs = [([a], [b]) for a in S4 for b in S4]
    plans = []     # (cases, thr, re)
    B = 400

    def batches(cases, thr, re):
        for i in range(0, len(cases), B):
            plans.append((cases[i:i + B], thr, re))
    if tier == "quick":
        batches(pairs, 60, "w")
        for thr, re in ((0, "w"), (100, "w"), (60, "dot"), (60, "S"), (100, "dot")):
            batches(rnd.sample(pairs, 2400), thr, re)
    else:
        for thr in (0, 60, 100):
            for re in ("w", "dot", "S"):
                batches(pairs, thr, re)
        S4e = strings("ab é", 4)
        big = [([a], [b]) for a in S4e for b in S4e]
        batches(rnd.sample(big, 40000), 60, "w")
    # subhunks up to 2 x 2 over strings of length <= 2
    S2 = strings("ab ", 2)
    groups = [list(t) for n in (1, 2) for t in itertools.product(S2, repeat=n)]
    multi = [(m, p) for m in groups for p in groups if len(m) + len(p) > 2]
    msel = multi if tier == "thorough" else rnd.sample(multi, 6000)
    for thr in (0, 60, 100):
        batches(msel if thr != 60 or tier == "thorough" else msel[:3000], thr, "w")
    # long realistic lines (seeded): repeated tokens, unicode, whitespace-only edits
    words = ["foo", "bar", "baz", "x", "é", "世界", "(", ")", ",", "=", "  ", " ", "\t", "foo", "foo"]
    longc = []
    for i in range(400 if tier == "quick" else 5000):
        r2 = random.Random(core.seed() * 65537 + i)
        base = [r2.choice(words) for _ in range(r2.randint(3, 14))]
        other = list(base)
        for _ in range(r2.randint(0, 3)):
            op = r2.randrange(3)
            pos = r2.randrange(len(other) + 1)
            if op == 0:
                other.insert(pos, r2.choice(words))
            elif op == 1 and other:
                other.pop(min(pos, len(other) - 1))
            elif other:
                other[min(pos, len(other) - 1)] = r2.choice(words)
        longc.append((["".join(base)], ["".join(other)]))
    batches(longc, 60, "w")
    batches(longc, 100, "S")
    # very long lines with a tiny change, at threshold 0 (only whitespace differences may pair) and just
    # around other thresholds; different kinds of whitespace facing each other
    tiny = []
    for i in range(60 if tier == "quick" else 600):
        r2 = random.Random(core.seed() * 52361 + i)
        ws = [r2.choice(["alpha", "beta", "gamma", "x", "y", "delta_9"]) for _ in range(r2.randint(60, 90))]
        a = " ".join(ws)
        j = r2.randrange(len(ws))
        ws2 = list(ws)
        ws2[j] = r2.choice(["q", "z", ws[j] + "Q"])
        tiny.append(([a], [" ".join(ws2)]))
        tiny.append(([a], [a.replace(" ", "  ", 3)]))                 # whitespace-only difference: may pair
    batches(tiny, 0, "w")
    # lines that differ by one long interior run of blanks only (re-aligned assignments, tables): distance 0 however different
    # the widths are; alone, and in front of a more distant candidate
    wide = []
    for i in range(12 if tier == "quick" else 120):
        r2 = random.Random(core.seed() * 4447 + i)
        name, n = r2.choice(["x", "alpha", "k9"]), r2.choice([12, 30, 45])
        a, b = f"{name} = {i}", f"{name}{' ' * n}= {i}"
        wide.append(([a], [b]) if i % 2 else ([b], [a]))
        wide.append(([a], [b, f"{name} = {i}7"]))
    batches(wide, 60, "w")
    batches(wide, 0, "w")
    # lines of several hundred tokens (a table of small numbers: every number and every blank is a token) with one change near
    # the end: the emphasis is that one token, however long the line
    table = []
    for i in range(5 if tier == "quick" else 40):
        r2 = random.Random(core.seed() * 9811 + i)
        # (about 280 tokens: the models of the edit inference inside TLC are quadratic in that number)
        nums = [str(r2.randrange(10, 99)) for _ in range(r2.choice([135, 142, 150]))]
        j = len(nums) - 1 - r2.randrange(8)
        nums2 = list(nums)
        nums2[j] = str(100 + r2.randrange(800))
        table.append(([" ".join(nums)], [" ".join(nums2)]))
    batches(table, 60, "w")
    uni = []
    SPACES = [" ", "\u00a0", "\u3000", "\t"]
    for i in range(150 if tier == "quick" else 1500):
        r2 = random.Random(core.seed() * 7349 + i)
        toks = [r2.choice(["a", "b", "foo", "é"]) for _ in range(r2.randint(2, 5))]
        s1 = "".join(t + r2.choice(SPACES) for t in toks)
        s2 = "".join(t + r2.choice(SPACES) for t in toks)
        uni.append(([s1], [s2]))
        # two changed words on either side of a (possibly non-ASCII) blank: one contiguous difference
        sp = r2.choice(SPACES[:3])
        a, b = r2.sample(["alpha", "beta", "gamma", "delta", "é1", "zz"], 2), r2.sample(["kappa", "mu", "nu", "xi9"], 2)
        uni.append((["keep " + a[0] + sp + a[1] + " tail"], ["keep " + b[0] + sp + b[1] + " tail"]))
    plans.append((uni, 60, "w", ("--tabs", "0")))
    plans.append((uni, 0, "w", ()))
    plans.append((uni[:100], 100, "dot", ("--tabs", "0")))

    # recorded findings (known_findings.json): a difference made of a zero-width character at threshold 0;
    # a run of changed lines longer than the line buffer at threshold 1
    ZW = [(["foo .\u0301 baz"], ["foo . baz"]), (["foo \u200bbar baz"], ["foo bar baz"])]
    LONGRUN = [([f"alpha{i} beta" for i in range(1, 41)], [f"gamma{i} beta" for i in range(1, 41)])]
    plans.append((ZW, 0, "w", ()))
    plans.append((LONGRUN, 100, "w", ()))
    # runs that just fit the line buffer (a run of exactly --line-buffer-size removed lines still pairs), default size and small sizes
    run_of = lambda n: ([f"alpha{i} beta" for i in range(1, n + 1)], [f"gamma{i} beta" for i in range(1, n + 1)])
    plans.append(([run_of(n) for n in (31, 32)], 100, "w", ()))
    plans.append(([run_of(n) for n in (3, 4)], 100, "w", ("--line-buffer-size", "4")))
    plans.append(([run_of(1)], 100, "w", ("--line-buffer-size", "1")))
    plans.append(([run_of(1), run_of(2)], 100, "w", ("--line-buffer-size", "2")))

    def one(plan):
        cases, thr, re = plan[:3]
        extra = plan[3] if len(plan) > 3 else ()
        r, hunks = render_batch(cases, thr, re, extra=extra)
        multi_line = any(len(m) + len(p) > 2 for m, p in cases)
        rs, shunks = (render_batch(cases, thr, re, sbs=True, extra=extra) if multi_line else (None, None))
        return r, hunks, rs, shunks

    res = core.pmap(one, plans)
    events, meta, evrun = [], [], []
    anomalies = 0
    for plan, (r, hunks, rs, shunks) in zip(plans, res):
        cases, thr, re = plan[:3]
        if r.code != 0 or len(hunks) != len(cases):
            V.violation(f"render:{thr}:{re}:{r.code}", f"batch did not render: exit {r.code}, {len(hunks)} hunks for {len(cases)} cases "
                        f"{r.err[:200]!r}", {"run": r.to_json()})
            continue
        for ci, ((ms, ps), rows) in enumerate(zip(cases, hunks)):
            if len(rows) != len(ms) + len(ps):
                anomalies += 1
                V.violation(f"rows:{ms}:{ps}", f"subhunk -{ms} +{ps} rendered as {len(rows)} rows", {"minus": ms, "plus": ps})
                continue
            mrec = [cells_rec(x) for x in rows[:len(ms)]]
            prec = [cells_rec(x) for x in rows[len(ms):]]
            sb = []
            if shunks is not None and len(shunks) == len(cases) and all(ms) and all(ps):
                i = j = 0
                for x in shunks[ci]:
                    ks = set(x["_kinds"])
                    left = bool(ks & {"minus", "minusEmph", "minusNon"})
                    right = bool(ks & {"plus", "plusEmph", "plusNon", "wsErr"})
                    if left:
                        i += 1
                    if right:
                        j += 1
                    if left or right:
                        sb.append([i if left else 0, j if right else 0])
            events.append({"run": len(events), "thr": thr, "re": re, "ms": mrec, "ps": prec, "rows": sb})
            meta.append((ms, ps, thr, re))
            evrun.append(r)
    n = max(1, min(8, len(events) // 8000 + 1))
    chunks = [events[i::n] for i in range(n)]
    outs = core.pmap(lambda ch: tlc.validate_trace("Trace_Emph", ch, heap="4g"), chunks, jobs=n)
    failed = [f for fl, r in outs for f in fl]
    drifts = [x for fl, r in outs for t, v in r.printed if t == "DRIFT" for x in (v if isinstance(v, list) else [])]
    for d in drifts[:6]:
        ms, ps, thr, re = meta[d]
        V.drift.append(f"module=Edits pairing / emphasis predicted otherwise: removed {ms!r} added {ps!r} (max distance {thr}%, regex {re})")
    states = sum(r.distinct for fl, r in outs)
    log(f"[{PID}] {len(events)} rendered subhunks judged by TLC (Trace_Emph), {len(failed)} rejected, {len(drifts)} differ from the Edits model")
    for f in failed:
        ms, ps, thr, re = meta[f["run"]]
        if (ms, ps) in ZW and thr == 0:
            V.violation("zero-width-difference-at-distance-0", f"{f['why']}: removed {ms!r} added {ps!r} (max distance 0)", {"minus": ms, "plus": ps})
            continue
        if (ms, ps) in LONGRUN:
            V.violation("run-longer-than-line-buffer", f"{f['why']}: 40 removed and 40 added lines at max distance 1, default line buffer", {"why": f["why"]})
            continue
        V.violation(f"{f['why']}:{thr}:{re}:{ms}:{ps}", f"{f['why']}: removed {ms!r} added {ps!r} (max distance {thr}%, regex {re})",
                    {"minus": ms, "plus": ps, "thr": thr, "re": re, "event": events[f["run"]], "run": evrun[f["run"]].to_json()})
    rc = V.finish()
    core.write_evidence(PID, tier, "model_checking", {
        "states": sum(design.values()), "transitions": sum(design.values()), "design_models": design, "monitor_states": states,
        "drift_against_Edits": len(drifts),
        "traces_validated_against_impl": len(events), "evaluations": len(events),
        "distinct_nontrivial": len({json.dumps(m) for m in meta}),
        "rule": "design level: Edits (tokenize, alignment table with delta's costs and tie-breaks, backtrack, run-length encoding, annotate "
                "with the whitespace-joining rule and the distance, greedy pairing) obeys every law on all 1x1 subhunks over strings <= 3 "
                "(3 regexes x 3 thresholds) and all subhunks up to 2x2 lines; the same model predicts pairing and per-character emphasis of "
                "every rendered subhunk (drift); binary: all ordered pairs of strings of length <= 4 over {a, b, space} as one-line subhunks (quick: exhaustive for the default "
                "regex and threshold, sampled for the other 5 combinations; thorough: exhaustive for 3 regexes x 3 thresholds, plus a "
                "4-letter alphabet sample); subhunks up to 2x2 lines over strings of length <= 2 at thresholds 0, 0.6, 1.0 in unified "
                "and side-by-side view; seeded long lines with repeated tokens, Unicode and whitespace-only edits",
        "single_pairs": len(pairs), "multi_line_subhunks": len(msel), "long_lines": len(longc),
        "samples": [{"minus": meta[i][0], "plus": meta[i][1], "thr": meta[i][2], "regex": meta[i][3],
                     "minus_marks": [x["e"] for x in events[i]["ms"]], "plus_marks": [x["e"] for x in events[i]["ps"]]}
                    for i in (5, len(events) // 2, len(events) - 1)],
        "exhaustive": tier == "thorough",
    }, time.time() - t0, len(V.violations),
        ["pairing and emphasis are read off reserved styles (plain / non-emph / emph / whitespace-error)",
         "pairing of empty lines is invisible in unified view and only constrained through row sharing"])
    return rc


def cells_rec(row):
    t, e = [], []
    paired = False
    for s_text, kd in zip(row["_spans"], row["_kinds"]):
        if kd in gitskin.LN_KINDS:
            continue
        for g in lexer.graphemes(s_text):
            t.append(ord(g[0]))
            e.append(1 if kd in ("minusEmph", "plusEmph") else 2 if kd == "wsErr" else 0)
        if kd in ("minusEmph", "plusEmph", "minusNon", "plusNon"):
            paired = True
    return {"t": t, "e": e, "p": paired}


def replay(path):
    return core.generic_replay(path)
