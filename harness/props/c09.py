"""C09 - output lines are self-contained, well-formed terminal text."""
import json
import random
import time

from .. import core, gitskin, lexer, stream, termev, tlc
from ..core import log

PID = "C09"

BASE = ["--no-gitconfig"]
MODES = {
    "unified": [],
    "unified+numbers+hyperlinks": ["--line-numbers", "--hyperlinks"],
    "side-by-side-60": ["--side-by-side", "--width", "60"],
    "side-by-side-41-wrap1": ["--side-by-side", "--width", "41", "--wrap-max-lines", "1"],
    "side-by-side-30-nowrap": ["--side-by-side", "--width", "30", "--wrap-max-lines", "0", "--hyperlinks"],
    "decorated": ["--file-decoration-style", "blue box ul", "--hunk-header-decoration-style", "yellow box ol",
                  "--commit-decoration-style", "bold ul ol", "--width", "50"],
    "diff-so-fancy": ["--diff-so-fancy", "--width", "70"],
    "diff-highlight+navigate": ["--diff-highlight", "--navigate"],
    "maxlen-20": ["--max-line-length", "20", "--line-numbers"],
    "styles-bg": ["--minus-style", "bold red 52", "--plus-style", "ul green 22", "--zero-style", "dim 237 234", "--width", "44",
                  "--plus-emph-style", "reverse green", "--whitespace-error-style", "blink magenta reverse"],
    "fill-spaces-sbs": ["--side-by-side", "--width", "50", "--line-fill-method", "spaces", "--minus-style", "red 52"],
    "keep-markers+tabs3": ["--keep-plus-minus-markers", "--tabs", "3", "--width", "40"],
    "color-only": ["--color-only"],
    "relative+linkfmt": ["--hyperlinks", "--hyperlinks-file-link-format", "x://{host}/{path}:{line}", "--line-numbers",
                         "--side-by-side", "--width", "72"],
}

PAY = ["let x = foo(bar, \"baz\");", "    if a { b } else { c }\t// 世界 wide", "é́ combining é and tab\there", "",
       "a" * 70, "世" * 30, "fn f() -> Result<(), Box<dyn Error>> { Ok(()) }  ", "\ttabbed\t\tline", "x"]


def payload(k, c):
    return PAY[k % len(PAY)]


# text that carries control sequences other than colours (a diff of a terminal typescript): DEC private modes, sequences
# with an intermediate byte; none of them changes the rendition, all are complete
PAY_CTRL = ["typescript \x1b[?25lhidden cursor\x1b[?25h and \x1b[?2004hbracketed paste " + "targets " * 6,
            "\x1b[>4;2mmodify other keys\x1b[0 q cursor shape " + "word " * 12, "plain line between", "\x1b[?1049h" + "alt screen " * 8 + "\x1b[?1049l"]
# file names with a component that looks like an abbreviated commit hash
HEX_NAMES = {1: "3f2a9bc1.json", 2: "deadbeef12.rs", 3: "0a1b2c3d4e5f.txt"}


def run(tier):
    t0 = time.time()
    V = core.Verdict(PID)
    rnd = random.Random(core.seed())
    cov, covstats = stream.cover_histories(pairs=False)
    covcc, _ = stream.cover_histories(pairs=False, cfg="Cover_Stream_cc")
    cov = [h for h in cov + covcc * 3 if len(h) >= 4]
    hists = rnd.sample(cov, min(len(cov), 260 if tier == "quick" else 3000))
    jobs = []
    for i, h in enumerate(hists):
        ms = list(MODES) if tier == "thorough" else rnd.sample(list(MODES), 4)
        for m in ms:
            jobs.append(("hist", h, m, i % 3, BASE + MODES[m]))
    for i, h in enumerate(hists[:60 if tier == "quick" else 600]):
        for m in ("side-by-side-60", "side-by-side-41-wrap1", "side-by-side-30-nowrap", "maxlen-20", "unified"):
            jobs.append(("ctrl", h, m, 0, BASE + MODES[m]))
        jobs.append(("hexnames", h, "hyperlinks+commit-format", i % 3,
                     BASE + ["--hyperlinks", "--hyperlinks-commit-link-format", "https://example.com/commit/{commit}", "--width", "90"]
                     + (["--side-by-side"] if i % 2 else [])))
    # truncation / wrapping sweep on one styled, hyperlinked line: every width and max-line-length
    L = lambda c, f=0, g=0, kd="": {"c": c, "f": f, "g": g, "kd": kd}
    one_line = [L("diff", 1, 1, "mod"), L("index"), L("mmm", 1), L("ppp", 1), L("hh"), L("zero"), L("minus"), L("plus"), L("zero")]
    sweep_w = range(1, 80) if tier == "thorough" else range(1, 80, 2)
    for w in sweep_w:
        for extra in ([], ["--wrap-max-lines", "1"], ["--wrap-max-lines", "0"], ["--wrap-max-lines", "5"]):
            jobs.append(("sweep", one_line, f"sbs-width-{w}", 1, BASE + ["--side-by-side", "--line-numbers", "--hyperlinks",
                         "--width", str(w)] + extra))
        jobs.append(("sweep", one_line, f"unified-width-{w}", 0, BASE + ["--line-numbers", "--hyperlinks", "--width", str(w),
                     "--zero-style", "syntax 236"]))
    for mll in (range(1, 60) if tier == "thorough" else range(1, 60, 3)):
        jobs.append(("sweep", one_line, f"maxlen-{mll}", 2, BASE + ["--max-line-length", str(mll), "--hyperlinks",
                     "--line-numbers"]))
        jobs.append(("sweep", one_line, f"maxlen-{mll}-sbs", 1, BASE + ["--max-line-length", str(mll), "--side-by-side",
                     "--width", "50"]))

    def one(job):
        kind, h, m, variant, args = job
        data, texts = gitskin.concretise(h, payload=(lambda k, c: PAY_CTRL[k % len(PAY_CTRL)]) if kind == "ctrl" else payload,
                                         skin={"names": HEX_NAMES, "dir": "tests/fixtures"} if kind == "hexnames" else None)
        if variant:
            texts = gitskin.colourise(h, texts, variant)
            data = "".join(t + "\n" for t in texts).encode()
        return core.run_delta(args, data, timeout=10)

    res = core.pmap(one, jobs)
    events = []
    hung = []
    for i, (job, r) in enumerate(zip(jobs, res)):
        if r.timed_out:
            hung.append(i)
            continue
        events.extend(termev.row_events(i, r.out))
    n = max(1, min(6, len(events) // 20000 + 1))
    chunks = [events[i::n] for i in range(n)]
    outs = core.pmap(lambda ch: tlc.validate_trace("Trace_Term", ch, heap="3g"), chunks, jobs=n)
    failed = [f for fl, r in outs for f in fl]
    states = sum(r.distinct for fl, r in outs)
    log(f"[{PID}] {len(jobs)} runs, {len(events)} output rows judged by TLC (Trace_Term), {len(failed)} rows rejected, "
        f"{len(hung)} runs timed out (left to C03/C07)")
    seen = set()
    for f in failed:
        kind, h, m, variant, args = jobs[f["run"]]
        key = (f["why"], m if kind == "sweep" else m)
        if key in seen:
            continue
        seen.add(key)
        V.violation(f"{f['why']}:{m}", f"row {f['row']} of the output in mode {m}: {f['why']} "
                    f"(input [{stream.shape(h)[:120]}], colouring {variant})",
                    {"history": h, "args": args, "run": res[f["run"]].to_json(), "failure": f})
    rc = V.finish()
    core.write_evidence(PID, tier, "model_checking", {
        "states": states, "transitions": states,
        "traces_validated_against_impl": len(jobs) - len(hung), "evaluations": len(events),
        "distinct_nontrivial": len({json.dumps(j[1]) + j[2] + str(j[3]) for j in jobs}),
        "rule": "transition-cover histories with nasty payloads (wide, combining, tabs, long, empty), plain and git-coloured, under "
                f"{len(MODES)} modes; plus sweeps of every --width and --max-line-length on a styled hyperlinked hunk (side-by-side "
                "with wrap limits 0/1/5/default, unified); every output row is a Trace_Term event; evaluations = rows",
        "modes": sorted(MODES), "runs_timed_out": len(hung), "transition_cover": covstats,
        "samples": [{"mode": jobs[i][2], "args": jobs[i][4], "row1": res[i].out.split(b"\n")[0].decode("utf-8", "replace")[:200]}
                    for i in (0, len(jobs) // 2, len(jobs) - 1)],
        "exhaustive": False,
    }, time.time() - t0, len(V.violations),
        ["input escape sequences are balanced (git's colouring)", "line-fill-method=ansi on a real tty is exercised by C07's PTY runs",
         "Trace_Term's SGR/OSC 8 semantics (spec/Term.tla) is the terminal model"])
    return rc


def replay(path):
    return core.generic_replay(path)
