"""C12 - style strings mean what git's colour language says they mean."""
import itertools
import json
import random
import re
import time

from .. import core, gitskin, lexer, tlc
from ..core import log

PID = "C12"
NAMED = {"black": 0, "red": 1, "green": 2, "yellow": 3, "blue": 4, "magenta": 5, "purple": 5, "cyan": 6, "white": 7}
BRIGHT = {"brightblack": 8, "brightred": 9, "brightgreen": 10, "brightyellow": 11, "brightblue": 12, "brightmagenta": 13,
          "brightpurple": 13, "brightcyan": 14, "brightwhite": 15}
ATTRS = {"bold": 1, "dim": 2, "italic": 3, "ul": 4, "underline": 4, "blink": 5, "reverse": 7, "hidden": 8, "strike": 9}
INPUT = (b"commit 1234567890abcdef1234567890abcdef12345678\nAuthor: A <a@b>\n\n    msg\n\n"
         b"diff --git a/locFile.txt b/locFile.txt\nindex 1..2 100644\n--- a/locFile.txt\n+++ b/locFile.txt\n"
         b"@@ -1,3 +1,3 @@ locFrag\n locZero\n-locMinus aaa\n+locPlus zzzz\n locZtwo\n")
# option -> (token that is painted with it, extra args needed to make it visible)
OPTIONS = {
    "plus-style": ("locPlus", []),
    "minus-style": ("locMinus", []),
    "zero-style": ("locZero", []),
    "file-style": ("locFile", []),
    "commit-style": ("commit 1234", []),
    "hunk-header-style": ("locFrag", []),
    "line-numbers-plus-style": ("2", ["--line-numbers", "--line-numbers-right-format", "<{np}>"]),
    "line-numbers-minus-style": ("2", ["--line-numbers", "--line-numbers-left-format", "<{nm}>", "--line-numbers-right-format", ""]),
    # the style goes with the number ({nm} / {np}), not with the field it is put into: the old-file number in the right field, the
    # new-file number in the left one, next to a distinguishable style for the other number
    "line-numbers-minus-style@right": ("2", ["--line-numbers", "--line-numbers-left-format", "", "--line-numbers-right-format", "<{nm}>",
                                             "--line-numbers-plus-style", "italic 201 202"]),
    "line-numbers-plus-style@left": ("2", ["--line-numbers", "--line-numbers-left-format", "<{np}>", "--line-numbers-right-format", "",
                                           "--line-numbers-minus-style", "italic 201 202"]),
    "line-numbers-minus-style@both": ("2", ["--line-numbers", "--line-numbers-left-format", "[{np}]<{nm}>", "--line-numbers-right-format", "",
                                            "--line-numbers-plus-style", "italic 201 202"]),
}
# colour names beyond the sixteen of the terminal (CSS names): direct colours by another spelling
CSS = {"orange": (255, 165, 0), "teal": (0, 128, 128), "salmon": (250, 128, 114), "navy": (0, 0, 128), "rebeccapurple": (102, 51, 153),
       "gold": (255, 215, 0), "hotpink": (255, 105, 180)}
HEADER_STYLES = {"file-style", "commit-style", "hunk-header-style"}
BLAME_INPUT = b"ea82f2d0 (Dan Davison       2021-08-22 18:20:19 -0700 120) locBlame code\n"
BLAME_OPTS = {"blame-code-style": "locBlame", "blame-separator-style": "│"}
# emphasis / non-emphasis styles and the line styles next to them, in a file of a highlighted language:
# option -> (token painted with it, marker of its row, which occurrence in the row)
INPUT_E = (b"diff --git a/locFile.rs b/locFile.rs\nindex 1..2 100644\n--- a/locFile.rs\n+++ b/locFile.rs\n"
           b"@@ -1,6 +1,6 @@ locFrag\n let locZero = 1;\n-let locGone = 0;\n let locMid = 1;\n-let locKeepM = locOld(1);\n"
           b"+let locKeepM = locNew(1);\n let locZtwo = 2;\n+let locAdded = 3;\n")
E_OPTIONS = {
    "minus-emph-style": ("locOld", "locOld", "first"),
    "minus-non-emph-style": ("locKeepM", "locOld", "first"),
    "plus-emph-style": ("locNew", "locNew", "first"),
    "plus-non-emph-style": ("locKeepM", "locNew", "last"),
    "minus-style": ("locGone", "locGone", "first"),
    "plus-style": ("locAdded", "locAdded", "first"),
    "zero-style": ("locZero", "locZero", "first"),
}
E_DECO = ["--file-decoration-style", "none", "--hunk-header-decoration-style", "none", "--width", "160"]
E_CONTEXTS = {
    "plain": (["--no-gitconfig", "--syntax-theme", "none"] + E_DECO, False),
    "theme": (["--no-gitconfig", "--syntax-theme", "Monokai Extended"] + E_DECO, True),
    "sbs": (["--no-gitconfig", "--syntax-theme", "Monokai Extended", "--side-by-side"] + E_DECO, True),
}
# grep output (rg --json on standard input), both layouts: option -> (token painted with it, is it code)
INPUT_G = (b'{"type":"begin","data":{"path":{"text":"src/locFile.rs"}}}\n'
           b'{"type":"match","data":{"path":{"text":"src/locFile.rs"},"lines":{"text":"fn locMain() { let locRest = 1; }\\n"},'
           b'"line_number":77,"absolute_offset":0,"submatches":[{"match":{"text":"locMain"},"start":3,"end":10}]}}\n'
           b'{"type":"context","data":{"path":{"text":"src/locFile.rs"},"lines":{"text":"pub struct locCtx;\\n"},'
           b'"line_number":78,"absolute_offset":30,"submatches":[]}}\n')
G_OPTIONS = {
    "grep-match-line-style": ("locRest", True),
    "grep-context-line-style": ("locCtx", True),
    "grep-match-word-style": ("locMain", True),
    "grep-line-number-style": ("77", False),
    "grep-file-style": ("locFile", False),
}
# style options that do not govern grep lines, at values other than their defaults: what a grep style paints must not depend on them
G_BYSTANDERS = [[], ["--hunk-header-style", "blue"], ["--hunk-header-style", "normal"], ["--zero-style", "red"],
                ["--plus-style", "syntax green", "--minus-style", "red"], ["--file-style", "yellow", "--hunk-header-file-style", "red"],
                ["--hunk-header-line-number-style", "red", "--line-numbers-zero-style", "red"],
                ["--hunk-header-style", "file line-number bold yellow", "--hunk-header-decoration-style", "none"],
                ["--commit-style", "red", "--blame-code-style", "blue"], ["--inline-hint-style", "red", "--whitespace-error-style", "blue"]]
BASE = ["--no-gitconfig", "--syntax-theme", "none", "--width", "80", "--file-decoration-style", "none",
        "--hunk-header-decoration-style", "none", "--commit-decoration-style", "none", "--max-line-distance", "0"]


def lex_word(w):
    x = w.strip("\"'").lower()
    if x in ATTRS:
        return {"k": "attr", "v": [ATTRS[x]]}
    if x in NAMED:
        return {"k": "color", "v": [NAMED[x]]}
    if x.replace("-", "") in BRIGHT:
        return {"k": "color", "v": [BRIGHT[x.replace("-", "")]]}
    if x == "normal":
        return {"k": "color", "v": []}
    if x in CSS:
        return {"k": "color", "v": list(CSS[x])}
    if x == "syntax":
        return {"k": "color", "v": [1000]}
    if re.fullmatch(r"\d{1,3}", x) and int(x) < 256:
        return {"k": "color", "v": [int(x)]}
    m = re.fullmatch(r"#([0-9a-f]{2})([0-9a-f]{2})([0-9a-f]{2})", x)
    if m:
        return {"k": "color", "v": [int(g, 16) for g in m.groups()]}
    if x in ("file", "line-number", "omit-code-fragment"):
        return {"k": "flag", "v": []}
    raise ValueError(w)


def observe(opt, style, truecolor):
    if opt in BLAME_OPTS:
        tok, extra = BLAME_OPTS[opt], ["--blame-timestamp-output-format", "%Y"]
        r = core.run_delta(BASE + extra + ["--true-color", truecolor, f"--{opt}", style], BLAME_INPUT, allow_usage_error=True)
    else:
        tok, extra = OPTIONS[opt]
        r = core.run_delta(BASE + extra + ["--true-color", truecolor, f"--{opt.split('@')[0]}", style], INPUT, allow_usage_error=True)
    if r.code != 0:
        return r, None
    for b in r.out.split(b"\n"):
        cs, pen = lexer.cells(lexer.tokens(b))
        text = "".join(c[0] for c in cs)
        if opt.startswith("line-numbers"):
            i = text.find("<" + tok + ">")
            i = i + 1 if i >= 0 else -1
        else:
            i = text.find(tok)
        if i >= 0:
            # index in cells: graphemes are single characters here
            g, fg, bg, at, lk = cs[i]
            amap = {"bold": 1, "dim": 2, "italic": 3, "ul": 4, "blink": 5, "reverse": 7, "hidden": 8, "strike": 9}
            return r, {"fg": list(fg), "bg": list(bg), "at": sorted(amap[a] for a in at), "row": b}
    return r, {"fg": [-1], "bg": [-1], "at": [], "row": b""}


def pal_rgb(n):
    """RGB value of entry n (16..255) of the 256-colour palette: 6 x 6 x 6 cube, then the grey ramp."""
    if n < 232:
        n -= 16
        lv = [0, 95, 135, 175, 215, 255]
        return lv[n // 36], lv[n // 6 % 6], lv[n % 6]
    g = 8 + 10 * (n - 232)
    return g, g, g


def pal_entries(ws):
    """Palette entries with exactly the RGB value of the first colour word, if that is a direct colour."""
    for w in ws:
        try:
            k = lex_word(w)
        except ValueError:
            continue
        if k["k"] == "color":
            return [n for n in range(16, 256) if list(pal_rgb(n)) == k["v"]] if len(k["v"]) == 3 else []
    return []


def companion(ws):
    """The line style next to an emphasis / non-emphasis style under test: the same string with the first colour
    flipped between `normal` and `syntax`, so that the two paint alike wherever that is possible."""
    for i, w in enumerate(ws):
        try:
            k = lex_word(w)
        except ValueError:
            continue
        if k["k"] == "color":
            return ws[:i] + ["normal" if w.lower() == "syntax" else "syntax"] + ws[i + 1:]
    return ["syntax"] + ws


def observe_e(opt, ws, ctx, truecolor="always", comp=True):
    tok, marker, which = E_OPTIONS[opt]
    base, theme = E_CONTEXTS[ctx]
    args = base + ["--true-color", truecolor, f"--{opt}", " ".join(ws)]
    if "emph" in opt and comp:
        args += [f"--{opt.split('-')[0]}-style", " ".join(companion(ws))]
    r = core.run_delta(args, INPUT_E, allow_usage_error=True)
    if r.code != 0:
        return r, None
    amap = {"bold": 1, "dim": 2, "italic": 3, "ul": 4, "blink": 5, "reverse": 7, "hidden": 8, "strike": 9}
    for b in r.out.split(b"\n"):
        cs, pen = lexer.cells(lexer.tokens(b))
        text = "".join(c[0] for c in cs)
        if marker not in text:
            continue
        i = text.find(tok) if which == "first" else text.rfind(tok)
        if i >= 0 and len(text) == len(cs):
            g, fg, bg, at, lk = cs[i]
            return r, {"fg": list(fg), "bg": list(bg), "at": sorted(amap[a] for a in at), "row": b}
    return r, {"fg": [-1], "bg": [-1], "at": [], "row": b""}


def observe_g(opt, ws, layout, theme, by, truecolor="always"):
    tok, code = G_OPTIONS[opt]
    args = (["--no-gitconfig", "--width", "120", "--syntax-theme", "Monokai Extended" if theme else "none", "--grep-output-type", layout,
             "--true-color", truecolor] + G_BYSTANDERS[by] + [f"--{opt}", " ".join(ws)])
    r = core.run_delta(args, INPUT_G, allow_usage_error=True)
    if r.code != 0:
        return r, None
    amap = {"bold": 1, "dim": 2, "italic": 3, "ul": 4, "blink": 5, "reverse": 7, "hidden": 8, "strike": 9}
    for b in r.out.split(b"\n"):
        cs, pen = lexer.cells(lexer.tokens(b))
        text = "".join(c[0] for c in cs)
        # (the file style is looked at in the file's own row in the ripgrep layout, in front of the match otherwise)
        i = text.find(tok)
        if i >= 0 and len(text) == len(cs):
            g, fg, bg, at, lk = cs[i]
            return r, {"fg": list(fg), "bg": list(bg), "at": sorted(amap[a] for a in at), "row": b}
    return r, {"fg": [-1], "bg": [-1], "at": [], "row": b""}


def shown(opt, style, truecolor):
    tok, extra = OPTIONS.get(opt, ("", []))
    opt = opt.split("@")[0]
    r = core.run_delta(BASE + extra + ["--true-color", truecolor, f"--{opt}", style, "--show-config"], b"",
                       allow_usage_error=True)
    for line in lexer.strip_ansi(r.out).decode("utf-8", "replace").split("\n"):
        m = re.match(r"^\s*" + re.escape(opt) + r"\s*=\s?(.*)$", line)
        if m:
            return m.group(1).strip()
    return None


def run(tier):
    t0 = time.time()
    V = core.Verdict(PID)
    rnd = random.Random(core.seed())
    mc = tlc.run_tlc("MC_Style", cfg="MC_Style", workers=4, coverage=False, timeout=900)
    tlc.require_ok(mc, "MC_Style")
    if mc.violated:
        V.drift.append("module=Style slot machine disagrees with the declarative meaning")
    vocab = ["red", "blue", "brightgreen", "7", "#0a141e", "normal", "bold", "ul", "reverse", "italic"]
    nmax = 3 if tier == "quick" else 4
    strings = [list(t) for n in range(1, nmax + 1) for t in itertools.product(vocab, repeat=n)]
    jobs = []
    for i, ws in enumerate(strings):
        opt = list(OPTIONS)[i % len(OPTIONS)] if i % 3 else "plus-style"
        jobs.append((ws, opt, "always" if i % 4 else "never", i % 5 == 0))
    # sweeps: all 256 palette numbers in both slots, random #rrggbb, names, attributes, case and quoting
    for n in range(256):
        jobs.append(([str(n), "normal"] if n % 2 else ["normal", str(n)], "plus-style", "always", n % 16 == 0))
        jobs.append((["bold", str(n), str(255 - n)], "minus-style", "never", False))
    for i in range(256 if tier == "quick" else 2048):
        r2 = random.Random(core.seed() * 4099 + i)
        hx = "#%02x%02x%02x" % (r2.randrange(256), r2.randrange(256), r2.randrange(256))
        hy = "#%02X%02X%02X" % (r2.randrange(256), r2.randrange(256), r2.randrange(256))
        opt = r2.choice(list(OPTIONS))
        attr = r2.choice([a for a in ATTRS if a != "underline" or opt not in HEADER_STYLES])
        jobs.append(([hx, hy] + ([attr] if i % 2 else []), opt, "always" if i % 3 else "never", i % 8 == 0))
    # CSS colour names in either slot, both colour depths (in 256-colour mode they come out as palette colours like any direct colour)
    for i, (nm, other) in enumerate(itertools.product(CSS, ["", "normal", "17", "teal", "bold"])):
        for tc in ("always", "never"):
            ws = [w for w in ((nm, other) if i % 2 else (other, nm)) if w]
            if ws[0] == "bold" or len(ws) == 1 or i % 2:
                jobs.append((ws, list(OPTIONS)[i % len(OPTIONS)], tc, i % 4 == 0))
    # styles that --show-config does not list (blame): both colour depths, direct colours
    for i in range(40 if tier == "quick" else 400):
        r2 = random.Random(core.seed() * 12007 + i)
        hx = "#%02x%02x%02x" % (r2.randrange(256), r2.randrange(256), r2.randrange(256))
        jobs.append(([hx, r2.choice(["normal", "17", "#102030"])] + ([r2.choice(["bold", "italic"])] if i % 2 else []),
                     r2.choice(list(BLAME_OPTS)), "never" if i % 2 else "always", False))
    # direct colours whose hex digits are doubled (#aabbcc), round-tripped through --show-config
    for i, hx in enumerate(["#ffffff", "#000000", "#aabbcc", "#112233", "#ff00aa", "#99ccff", "#abcdef", "#a0b0c0"]):
        jobs.append(([hx, "#ddeeff" if i % 2 else "normal"], ["plus-style", "minus-style", "zero-style", "file-style"][i % 4], "always", True))
    allwords = list(NAMED) + list(BRIGHT) + ["bright-red", "bright-purple", "bright-white"] + list(ATTRS)
    for i in range(300 if tier == "quick" else 3000):
        r2 = random.Random(core.seed() * 8191 + i)
        ws = [r2.choice(allwords) for _ in range(r2.randint(1, 5))]
        ws = [w.upper() if r2.random() < 0.3 else (w.capitalize() if r2.random() < 0.2 else w) for w in ws]
        ws = [("'" + w + "'") if r2.random() < 0.15 else (('"' + w + '"') if r2.random() < 0.15 else w) for w in ws]
        if r2.random() < 0.3:
            ws.insert(r2.randrange(len(ws) + 1), r2.choice(["file", "line-number"]))
        opt = r2.choice(list(OPTIONS))
        if opt in HEADER_STYLES:
            # in the styles of decorated elements the long word 'underline' asks for an underline decoration
            ws = [w for w in ws if w.strip("\"'").lower() != "underline"] or ["bold"]
        jobs.append((ws, opt, "always", i % 6 == 0))

    # emphasis / non-emphasis / line styles of paired and unpaired lines: with and without a syntax theme, unified and
    # side-by-side, with `syntax` as a colour word; the neighbouring line style paints alike where it can
    evocab = ["red", "#0a141e", "normal", "syntax", "bold", "italic", "7"]
    estrings = [list(t) for n in range(1, 4) for t in itertools.product(evocab, repeat=n)]
    for i, ws in enumerate(estrings):
        opts = list(E_OPTIONS) if tier == "thorough" else [list(E_OPTIONS)[i % len(E_OPTIONS)], list(E_OPTIONS)[(i // 7) % 4]]
        for opt in dict.fromkeys(opts):
            for ctx in E_CONTEXTS:
                for comp in ((True, False) if "emph" in opt else (False,)):    # (the line style left at its default, too)
                    jobs.append((ws, opt, "always" if (i + len(ctx)) % 3 else "never", ("ctx", ctx, comp)))

    # grep lines (rg --json input), classic and ripgrep layout, with and without a theme: the grep styles mean what they say whatever
    # the style options of other elements are set to
    gvocab = ["red", "#0a141e", "normal", "syntax", "bold", "italic", "7"]
    gstrings = [list(t) for n in range(1, 3 if tier == "quick" else 4) for t in itertools.product(gvocab, repeat=n)]
    gi = 0
    for ws in gstrings:
        for opt, (tok, code) in G_OPTIONS.items():
            if not code and "syntax" in ws:
                continue
            for layout in ("ripgrep", "classic"):
                for theme in (False, True):
                    gi += 1
                    bys = range(len(G_BYSTANDERS)) if tier == "thorough" else {gi % len(G_BYSTANDERS), 1 + gi // 3 % 2, 7 * (gi % 2)}
                    for by in sorted(bys):
                        jobs.append((ws, opt, "always" if gi % 4 else "never", ("grep", layout, theme and code, by, theme)))

    # 256-colour mode: a direct colour that is exactly an entry of the palette (colour cube, grey ramp) comes out as that entry
    for n in range(16, 256):
        jobs.append((["#%02x%02x%02x" % pal_rgb(n)], ["plus-style", "minus-style", "zero-style", "file-style"][n % 4], "never", False))

    def one(job):
        ws, opt, tc, rt = job
        if isinstance(rt, tuple) and rt[0] == "grep":
            r, obs = observe_g(opt, ws, rt[1], rt[4], rt[3], tc)
            return r, obs, 2
        if isinstance(rt, tuple):
            r, obs = observe_e(opt, ws, rt[1], tc, rt[2])
            return r, obs, 2
        if opt in BLAME_OPTS:
            rt = False
        style = " ".join(ws)
        r, obs = observe(opt, style, tc)
        rtv = 2
        if rt and obs is not None and obs["fg"] != [-1]:
            s2 = shown(opt, style, tc)
            if s2 is not None:
                r2_, obs2 = observe(opt, s2, tc)
                rtv = 1 if (obs2 is not None and obs2["row"] == obs["row"]) else 0
        return r, obs, rtv

    res = core.pmap(one, jobs)
    events = []
    notfound = 0
    for i, ((ws, opt, tc, rt), (r, obs, rtv)) in enumerate(zip(jobs, res)):
        rejected = obs is None
        if r.timed_out or (rejected and (b"panicked" in r.err or r.code not in (1, 2))):
            V.violation(f"crash:{opt}:{' '.join(ws)}", f"delta crashed on --{opt} '{' '.join(ws)}': exit {r.code} {r.err[:160]!r}",
                        {"run": r.to_json()})
            continue
        if obs is not None and obs["fg"] == [-1]:
            notfound += 1
            continue
        events.append({"run": i, "ws": [lex_word(w) for w in ws], "rejected": rejected,
                       "fg": obs["fg"] if obs else [], "bg": obs["bg"] if obs else [], "at": obs["at"] if obs else [],
                       "exact": tc == "always", "rt": rtv, "theme": isinstance(rt, tuple) and (rt[2] if rt[0] == "grep" else E_CONTEXTS[rt[1]][1]),
                       "pal": pal_entries(ws)})
    if notfound > len(jobs) // 50:
        raise core.ToolError(f"the painted token was not found in {notfound} outputs")
    # decoration styles: letter case and quoting must not matter (relational: same rendering as the lower-case form)
    DECO_OPTS = ["file-decoration-style", "hunk-header-decoration-style", "commit-decoration-style"]
    DECO_WORDS = ["box", "ul", "ol", "underline", "overline", "blue", "bold", "yellow", "#0a141e", "none"]
    dpairs = []
    for i in range(120 if tier == "quick" else 1200):
        r2 = random.Random(core.seed() * 33211 + i)
        ws = [r2.choice(DECO_WORDS) for _ in range(r2.randint(1, 3))]
        if sum(w in ("blue", "yellow", "#0a141e") for w in ws) > 2:
            continue
        var = [w.upper() if r2.random() < 0.5 else w.capitalize() for w in ws]
        var = [("'" + w + "'") if r2.random() < 0.2 else w for w in var]
        dpairs.append((r2.choice(DECO_OPTS), " ".join(ws), " ".join(var)))

    def deco_one(job):
        opt, a, b = job
        base = ["--no-gitconfig", "--syntax-theme", "none", "--width", "60"]
        return (core.run_delta(base + [f"--{opt}", a], INPUT, allow_usage_error=True),
                core.run_delta(base + [f"--{opt}", b], INPUT, allow_usage_error=True))
    dres = core.pmap(deco_one, dpairs)
    intern = gitskin.Interner()
    devents = []
    for j, ((opt, a, b), (ra, rb)) in enumerate(zip(dpairs, dres)):
        xa = [intern(x) for x in ra.out.split(b"\n")] + [1000000 + ra.code]
        xb = [intern(x) for x in rb.out.split(b"\n")] + [1000000 + rb.code]
        devents.append({"run": j, "kind": "equal", "x": xa, "y": xb, "z": [], "ex": []})
    dfailed, dtr = tlc.validate_trace("Trace_Rel", devents)
    for f in dfailed:
        opt, a, b = dpairs[f["run"]]
        V.violation(f"deco-case:{opt}:{a}", f"--{opt} '{b}' is not rendered like '{a}' (letter case / quoting)",
                    {"option": opt, "a": a, "b": b, "run": dres[f["run"]][1].to_json()})
    log(f"[{PID}] {len(devents)} decoration-style strings compared with their lower-case form by TLC, {len(dfailed)} rejected")
    failed, tr = tlc.validate_trace("Trace_Style", events)
    log(f"[{PID}] {len(events)} style strings judged by TLC (Trace_Style), {len(failed)} rejected ({notfound} not located)")
    # inline-hint-style (wrap symbols): a recorded finding, see known_findings.json
    longd = (b"diff --git a/locFile.txt b/locFile.txt\nindex 1..2 100644\n--- a/locFile.txt\n+++ b/locFile.txt\n@@ -1,1 +1,1 @@\n"
             b"-" + b"old words " * 9 + b"\n+" + b"new words " * 9 + b"\n")
    r = core.run_delta(["--no-gitconfig", "--syntax-theme", "none", "--side-by-side", "--width", "60", "--true-color", "always",
                        "--inline-hint-style", "red bold", "--plus-style", 'normal "#003300"'], longd)
    hint = []
    for b in r.out.split(b"\n"):
        cs, pen = lexer.cells(lexer.tokens(b))
        hint += [(tuple(fg), frozenset(at)) for g, fg, bg, at, lk in cs if g == "\u21b5"]
    if not hint:
        raise core.ToolError("no wrap symbol found in the side-by-side rendering of a long line")
    if any(fg != (1,) or "bold" not in at for fg, at in hint):
        V.violation("inline-hint-style-partly-applied", f"wrap symbols under --inline-hint-style 'red bold' are painted as {sorted(set(hint))[:3]}",
                    {"run": r.to_json()})
    for f in failed:
        ws, opt, tc, rt = jobs[f["run"]]
        r, obs, rtv = res[f["run"]]
        where = ""
        if isinstance(rt, tuple) and rt[0] == "grep":
            where = f", grep output, layout {rt[1]}, theme {'on' if rt[4] else 'off'}, beside {' '.join(G_BYSTANDERS[rt[3]]) or 'defaults'}"
        elif isinstance(rt, tuple):
            where = f", context {rt[1]}" + (f", --{opt.split('-')[0]}-style '{' '.join(companion(ws))}'" if rt[2] and "emph" in opt else "")
        V.violation(f"{f['why']}:{opt}:{tc}:{' '.join(ws)}" + (":" + ":".join(str(x) for x in rt[1:]) if isinstance(rt, tuple) else ""),
                    f"{f['why']}: --{opt} '{' '.join(ws)}' (true-color {tc}{where}) rendered as "
                    f"{ {k: obs[k] for k in ('fg', 'bg', 'at')} if obs else 'rejected: ' + r.err[:100].decode('utf-8', 'replace')}",
                    {"words": ws, "option": opt, "run": r.to_json()})
    rc = V.finish()
    core.write_evidence(PID, tier, "model_checking", {
        "states": mc.distinct, "transitions": mc.generated, "traces_validated_against_impl": len(events),
        "evaluations": len(events), "distinct_nontrivial": len({" ".join(j[0]) + j[1] + j[2] for j in jobs}),
        "rule": f"every string of <= {nmax} words over {vocab} (design level: slot machine = declarative meaning for all strings of "
                "<= 5 words over 8 word kinds); all 256 palette numbers in each slot; seeded #rrggbb pairs; seeded strings over all "
                "colour names (both bright spellings) and attributes with random letter case, quoting and no-op words; eight "
                "style-typed options; 24-bit and 256-colour mode; --show-config round trip on a subset",
        "options": sorted(set(OPTIONS) | set(E_OPTIONS) | set(BLAME_OPTS) | set(G_OPTIONS)),
        "contexts": "header / line / number styles: unified, no theme; emphasis, non-emphasis and line styles: {no theme, Monokai Extended, "
                    "Monokai Extended + side-by-side} on a .rs file, with `syntax` as a colour word and a neighbouring line style that "
                    "paints alike; grep styles: rg --json input in the classic and the ripgrep layout, with and without a theme, beside non-default "
                    "values of the style options of other elements (hunk header, hunk lines, file, numbers, commit, blame)",
        "samples": [{"style": " ".join(jobs[i][0]), "option": jobs[i][1], "observed": {k: res[i][1][k] for k in ("fg", "bg", "at")}
                     if res[i][1] else None} for i in (3, 700, len(jobs) - 1)],
        "exhaustive": True,
    }, time.time() - t0, len(V.violations),
        ["the 24-bit -> 256-colour mapping is not modelled: in 256-colour mode a direct colour need only come out as a palette colour",
         "'auto', 'omit' and 'raw' are not enumerated (they depend on defaults / suppress the element); 'syntax' only for hunk-line styles"])
    return rc


def replay(path):
    return core.generic_replay(path)
