"""C01 - every hunk line is shown exactly once, in order, with its text intact (unified view)."""
import itertools
import json
import random
import time

from .. import core, gitskin, stream, tlc
from ..core import log

PID = "C01"
ALPHABET = ["-", "+", "@", "\\", " ", "\t", "a", "é", "世", "\u0301", "\u200d"]   # (the last two: a combining mark, a joiner - they cling to the marker)


def payload_histories(maxlen):
    """One-hunk-per-payload skeletons: every string of <= maxlen chars over ALPHABET, for each
    line kind.  Returns [(hist, payload_fn)]."""
    strings = [""]
    for n in range(1, maxlen + 1):
        strings += ["".join(t) for t in itertools.product(ALPHABET, repeat=n)]
    # text that begins like git's submodule lines without being one (no full hash): ordinary lines
    strings += ["Subproject commit abc123", "Subproject commit " + "z" * 40, "Subproject commit " + "a" * 39, "Subproject commit"]
    out = []
    L = lambda c, f=0, g=0, kd="": {"c": c, "f": f, "g": g, "kd": kd}
    for kind in ("minus", "plus", "zero"):
        for chunk in range(0, len(strings), 150):
            part = strings[chunk:chunk + 150]
            hist = [L("diff", 1, 1, "mod"), L("index"), L("mmm", 1), L("ppp", 1)]
            table = {}
            for s in part:
                hist.append(L("hh"))
                hist.append(L(kind))
                table[len(hist)] = s
            out.append((hist, (lambda t: (lambda k, c: t[k]))(table)))
    return out, len(strings)


def run(tier):
    t0 = time.time()
    V = core.Verdict(PID)
    rnd = random.Random(core.seed())
    # 1. design level: Impl_Stream satisfies Obs_Stream for every history in bound
    mc = tlc.run_tlc("MC_Stream", cfg=f"MC_Stream_{tier}", workers=8, coverage=False, heap="8g", timeout=3400)
    tlc.require_ok(mc, "MC_Stream")
    hists = [v["h"] for t, v in mc.printed if t == "REPLAY"]
    cex = [v for t, v in mc.printed if t == "CEX"]
    cov, covstats = stream.cover_histories(pairs=(tier == "thorough"))
    hists += cov
    git_hists = list(hists)      # two-way git diffs only: what `git diff --word-diff` can print
    # word-diff mode (the calling git's command line says --word-diff / --color-words): design level
    mwd = tlc.run_tlc("MC_Stream", cfg="MC_Stream_wd", workers=8, coverage=False, heap="8g", timeout=3400)
    tlc.require_ok(mwd, "MC_Stream_wd")
    if mwd.violated:
        cex += [v for t, v in mwd.printed if t == "CEX"][:3]
    # combined (merge) diffs with conflict regions: design level + transition cover of their own model
    mcc = tlc.run_tlc("MC_Stream", cfg="MC_Stream_cc", workers=8, coverage=False, heap="8g", timeout=3400)
    tlc.require_ok(mcc, "MC_Stream_cc")
    if mcc.violated:
        cex += [v for t, v in mcc.printed if t == "CEX"][:3]
    covcc, covccstats = stream.cover_histories(pairs=(tier == "thorough"), cfg="Cover_Stream_cc")
    hists += covcc
    covsub, covsubstats = stream.cover_histories(pairs=False, cfg="Cover_Stream_sub")   # submodule sections
    hists += covsub
    log(f"[{PID}] design level: {mc.generated} states, {mc.distinct} distinct, depth {mc.depth}, "
        f"{len(hists)} histories to replay, violated={mc.violated}")
    # non-vacuity of the design-level check: the model of the tree without the D1 fix must be rejected
    reg = tlc.run_tlc("MC_Stream", cfg="MC_Stream_noD1", workers=4, coverage=False, timeout=600)
    if not reg.violated:
        raise core.ToolError("regression config MC_Stream_noD1 was not rejected: design-level check is vacuous")
    if cex:
        hists = [c["h"] for c in cex] + hists  # counterexample-guided replay
    # 2. replay into the real binary
    # plain diff -u / diff -ru input (no git header lines; the "--- " ambiguity and its line counter)
    du_stats = {}
    for cfg in ("bare", "titled"):
        mdu = tlc.run_tlc("MC_DiffU", cfg=f"MC_DiffU_{cfg}", workers=8, coverage=False, heap="8g", timeout=3000)
        tlc.require_ok(mdu, "MC_DiffU_" + cfg)
        if mdu.violated:
            cex += [v for t, v in mdu.printed if t == "CEX"][:3]
        cdu, st = stream.cover_histories(pairs=(tier == "thorough"), cfg=f"Cover_DiffU_{cfg}", module="Cover_DiffU")
        du_stats[cfg] = {"states": mdu.distinct, "cover": st}
        hists += [v["h"] for t, v in mdu.printed if t == "REPLAY"] + cdu
    amb = tlc.run_tlc("MC_DiffU", cfg="MC_DiffU_ambig", workers=4, coverage=False, timeout=900)
    if not amb.violated:
        V.drift.append("module=Impl_Stream the model no longer mistakes header look-alike lines of diff -u input for headers")
    # header look-alike hunk lines in diff -u input (a recorded finding, see known_findings.json)
    Lk = lambda c, f=0, g=0, kd="": {"c": c, "f": f, "g": g, "kd": kd}
    lookalikes = [
        ("plus3", [Lk("mmm", 1, 0, "dufile"), Lk("ppp", 1), Lk("hh", 0, 1), Lk("zero"), Lk("plus3"), Lk("plus")]),
        ("plus3", [Lk("du", 1, 1, "du"), Lk("mmm", 1), Lk("ppp", 1), Lk("hh", 0, 1), Lk("minus"), Lk("plus3")]),
        ("minus3-titled", [Lk("du", 1, 1, "du"), Lk("mmm", 1), Lk("ppp", 1), Lk("hh", 0, 2), Lk("minus3"), Lk("zero")]),
    ]
    hunk_hists = [h for h in hists if any(l["c"] in ("minus", "plus", "zero", "cin", "minus3", "subc", "subp") for l in h)]
    if len(hunk_hists) > 200000:
        hunk_hists = rnd.sample(hunk_hists, 200000)        # (bounded: the thorough run has to fit into time and memory)
    sample = rnd.sample(hunk_hists, min(len(hunk_hists), 40000 if tier == "thorough" else 3000))
    plans = [
        stream.Plan("rs", hunk_hists),
        stream.Plan("rs+markers", sample, ["--keep-plus-minus-markers"], {"keep": True}),
        stream.Plan("rs+numbers", sample, ["--line-numbers"]),
        stream.Plan("rs+buf0", sample, ["--line-buffer-size", "0"], {"buf": 0}),
        stream.Plan("rs+buf1+dist1", sample, ["--line-buffer-size", "1", "--max-line-distance", "1.0"], {"buf": 1}),
    ]
    pl, nstr = payload_histories(3 if tier == "thorough" else 2)
    for h, fn in pl:
        plans.append(stream.Plan("payload", [h], [], None, fn))
        plans.append(stream.Plan("payload+markers+tabs2", [h], ["--keep-plus-minus-markers", "--tabs", "2"],
                                 {"keep": True, "tabs": 2}, fn))
        plans.append(stream.Plan("payload+tabs0+numbers", [h], ["--tabs", "0", "--line-numbers"], {"tabs": 0}, fn))
        # the emulation presets keep the unified view (and the default tab width)
        plans.append(stream.Plan("payload+diff-so-fancy", [h], ["--diff-so-fancy"], None, fn))
        plans.append(stream.Plan("payload+diff-highlight+markers", [h], ["--diff-highlight", "--keep-plus-minus-markers"], {"keep": True}, fn))
    plans.append(stream.Plan("rs/lookalike", [h for _, h in lookalikes]))
    plans.append(stream.Plan("rs/sha256-submodules", [h for h in covsub if any(l["c"] in ("subm", "subp") for l in h)], skin={"subhash64": True}))
    # word-diff mode: delta runs the (stub) git itself and reads the mode off its command line
    wd_hists = [h for h in git_hists if any(l["c"] in ("minus", "plus", "zero") for l in h)]
    wd_sample = wd_hists if tier == "thorough" else rnd.sample(wd_hists, min(len(wd_hists), 600))
    plans.append(stream.Plan("word-diff", wd_sample, [], {"wd": True}, cmd=["git", "diff", "--word-diff"]))
    plans.append(stream.Plan("color-words+tabs2", wd_sample[:300] if tier == "quick" else wd_sample, ["--tabs", "2"], {"wd": True, "tabs": 2},
                             cmd=["git", "log", "-p", "--color-words"]))
    for h, fn in pl:
        plans.append(stream.Plan("payload+word-diff", [h], [], {"wd": True}, fn, cmd=["git", "show", "--word-diff-regex=."]))
    failed, n, res, drift_lines = stream.execute_and_validate(plans)
    log(f"[{PID}] replayed {n} runs, {len(failed)} rejected by Obs_Stream")
    for f in failed:
        p, h, data, r, ev, rows = res[f["run"]]
        if not stream.relevant(PID, f) and p.name != "rs/lookalike":
            continue
        sig = f"{f['why']}:{f['wt']}:{f['gt']}:{stream.shape(h)[:400]}"
        if p.name == "rs/lookalike":
            kind = next(k for k, hh in lookalikes if hh == h)
            sig = "diffu-lookalike:" + kind
        V.violation(sig, f"history [{stream.shape(h)[:200]}] under {p.name}: wanted row {f['i']} ({f['wt']}) "
                    f"but output row {f['j']} is {f['gt']}",
                    {"history": h, "config": p.name, "run": r.to_json(), "failure": f})
    V.drift = drift_lines
    if cex and not V.violations:
        V.drift.append(f"module=Impl_Stream design-level counterexample {cex[0]['inv']} not reproduced by the binary")
    rc = V.finish()
    nontrivial = len({json.dumps(x[1], sort_keys=True) + x[0].name for x in res})
    core.write_evidence(PID, tier, "model_checking", {
        "states": mc.distinct, "transitions": mc.generated, "depth": mc.depth,
        "traces_validated_against_impl": n,
        "evaluations": n, "distinct_nontrivial": nontrivial,
        "rule": "every Env_Git history up to ReplayLen lines containing a hunk line (TLC enumeration), x configurations; "
                f"plus every payload string of bounded length over {ALPHABET!r} for each line kind; distinct = distinct (history, configuration)",
        "payload_strings": nstr, "transition_cover": covstats, "transition_cover_combined": covccstats, "transition_cover_submodule": covsubstats,
        "states_combined_model": mcc.distinct, "states_word_diff_model": mwd.distinct, "diff_u_models": du_stats,
        "configs": sorted({x[0].name for x in res}),
        "drift": len(V.drift), "known_findings_hit": len(V.known_hit),
        "design_counterexamples": len(cex),
        "regression_model_rejected": reg.violated,
        "samples": [{"history": stream.shape(x[1])[:300], "config": x[0].name,
                     "stdin": x[2].decode("utf-8", "replace")[:600]} for x in rnd.sample(res, min(3, len(res)))],
        "exhaustive": True,
    }, time.time() - t0, len(V.violations),
        ["Env_Git grammar covers git-source unified diffs (combined diffs: see C01 merge plans)",
         "row kinds are read off reserved 256-colour styles; decoration rows next to headers are ignored"])
    return rc


def replay(path):
    return core.generic_replay(path)
