"""C07 - side-by-side view: correct panels, fixed geometry, lossless wrapping."""
import itertools
import json
import random
import time

from .. import core, gitskin, lexer, stream, tlc
from ..core import log

PID = "C07"
WIDTHS_Q = [16, 17, 18, 19, 21, 22, 27, 30, 33, 40, 47, 60, 61, 80, 81, 120]
NARROW_ALPHA = ["a", "b", " ", "x", "é", "ü", "\t", "é"]   # no double-width characters
LIMITS = [0, 1, 2, 5, -1]
ALPHA = ["a", "b", " ", "世", "é", "\t", "x", "ü", "界", "é"]


def gen_text(r2, maxlen, alpha=None):
    n = r2.choice([0, 1, 2, 3, 5, 8, 13, 21, 34, 55, maxlen]) if maxlen < 3000 else r2.choice([maxlen, maxlen - 7, 13])
    s = "".join(r2.choice(alpha or ALPHA) for _ in range(min(n, maxlen)))
    return s


def make_block_case(r2, W):
    """One hunk of 2-4 consecutive modified lines whose added versions are longer than the removed ones by
    different amounts (the two sides of a paired line wrap into different numbers of rows), optionally
    preceded by an unpaired removed line."""
    panel = max(3, W // 2 - 6)
    lines = ["diff --git a/alphaZ1Z.rs b/alphaZ1Z.rs", "index 1111111..2222222 100644", "--- a/alphaZ1Z.rs", "+++ b/alphaZ1Z.rs"]
    k = r2.randint(2, 4)
    minus, plus = [], []
    if r2.random() < 0.4:
        minus.append("unpaired zq" + "u" * r2.randint(0, panel))
    for i in range(k):
        base = f"common words line{i} " + "abc " * r2.randint(1, max(1, panel // 3))
        minus.append(base + "end")
        plus.append(base + "and a longer tail " + "xyz " * r2.randint(0, panel) + "end")
    if r2.random() < 0.5:
        minus, plus = plus, minus
    lines.append(f"@@ -10,{len(minus)} +12,{len(plus)} @@ fragZ1Z")
    lines += ["-" + t for t in minus] + ["+" + t for t in plus]
    left = [{"z": 0, "t": [ord(c) for c in t]} for t in minus]
    right = [{"z": 0, "t": [ord(c) for c in t]} for t in plus]
    return ("\n".join(lines) + "\n").encode(), left, right


def make_case(r2, maxlen, shared, alpha=None, wide=False):
    nh = r2.choice([1, 1, 2])
    lines = ["diff --git a/alphaZ1Z.rs b/alphaZ1Z.rs", "index 1111111..2222222 100644", "--- a/alphaZ1Z.rs", "+++ b/alphaZ1Z.rs"]
    left, right = [], []
    z = 0
    for hi in range(nh):
        body = [r2.choice(["minus", "plus", "zero"]) for _ in range(r2.randint(1, 6))]
        nm = sum(c in ("minus", "zero") for c in body)
        np_ = sum(c in ("plus", "zero") for c in body)
        # hunk positions: the two sides may need different numbers of digits, and a side may gain a digit inside the hunk
        # (only where the panels are wide enough for the wider gutters: the quantifier starts at the narrowest width that fits them)
        so, sn = r2.choice([(10, 12), (10, 12), (9997, 97), (98, 3), (99998, 5), (7, 9998), (997, 999)] if wide else [(10, 12), (98, 3)])
        lines.append(f"@@ -{so + hi * 50},{nm} +{sn + hi * 50},{np_} @@ fragZ{hi + 1}Z")
        base = gen_text(r2, maxlen, alpha)
        for c in body:
            if shared and r2.random() < 0.6:
                # similar to the previous text: lines that pair up
                pos = r2.randrange(len(base) + 1)
                t = base[:pos] + r2.choice(["Q", "", "zz "]) + base[pos:]
            else:
                t = gen_text(r2, maxlen, alpha)
                base = t
            if t == "":
                t = "n"          # empty lines cannot be told from filler rows; kept non-empty here
            shown = [ord(ch) for ch in t.replace("\t", " " * 8)]
            if c == "minus":
                left.append({"z": 0, "t": shown})
            elif c == "plus":
                right.append({"z": 0, "t": shown})
            else:
                z += 1
                left.append({"z": z, "t": shown})
                right.append({"z": z, "t": shown})
            lines.append({"minus": "-", "plus": "+", "zero": " "}[c] + t)
    return ("\n".join(lines) + "\n").encode(), left, right


def cps_nfc(s):
    return [ord(ch) for ch in s]


def wrap_model_replay(V, tier):
    """Design level: TLC checks the transcription of wrap_line (spec/Wrap.tla) on every text / cut / width /
    limit in bound; the single-section cases are then rendered by the real binary as an unchanged line of a
    side-by-side diff and the rows are compared with the model's (drift), besides being judged like all others."""
    mc = tlc.run_tlc("MC_Wrap", cfg="MC_Wrap", workers=8, coverage=False, timeout=1800, heap="6g",
                     extra=[]) if tier == "thorough" else tlc.run_tlc("MC_Wrap", cfg="MC_Wrap_quick", workers=8,
                                                                      coverage=False, timeout=900, heap="6g")
    tlc.require_ok(mc, "MC_Wrap")
    if mc.violated:
        V.drift.append(f"module=Wrap design-level {mc.violated} violated")
    reg = tlc.run_tlc("MC_Wrap", cfg="MC_Wrap_regression", workers=4, coverage=False, timeout=600)
    if reg.violated != "Terminates":
        raise core.ToolError("MC_Wrap_regression (loop without the no-progress stop) did not violate Terminates")
    # the Replay invariant is only in the emit config
    em = tlc.run_tlc("MC_Wrap", cfg="MC_Wrap_emit", workers=4, coverage=False, timeout=900, heap="6g")
    tlc.require_ok(em, "MC_Wrap_emit")
    cases = [v for t, v in em.printed if t == "REPLAY"]
    G = {1: "a", 2: "世"}

    def one(c):
        text = "".join(G[w] for w in c["t"])
        if not text:
            return None
        data = (f"diff --git a/alphaZ1Z.rs b/alphaZ1Z.rs\nindex 1..2 100644\n--- a/alphaZ1Z.rs\n+++ b/alphaZ1Z.rs\n"
                f"@@ -1,1 +1,1 @@ fragZ1Z\n {text}\n").encode()
        args = gitskin.rs_args(2 * (c["W"] + 6)) + ["--side-by-side", "--wrap-max-lines",
                                                    "unlimited" if c["M"] == 0 else str(c["M"] - 1), "--wrap-right-percent", "1"]
        r = core.run_delta(args, data, timeout=10)
        rows = []
        for b in r.out.split(b"\n")[:-1]:
            p = gitskin.parse_sbs_row(b)
            if p is not None:
                t, wrapped, trunc, ra = p["lp"]
                rows.append(([lexer.gwidth(g) for g in lexer.graphemes(t)], wrapped, trunc))
        return r, rows
    res = core.pmap(one, cases)
    drift = 0
    for c, x in zip(cases, res):
        if x is None:
            continue
        r, rows = x
        if r.timed_out or r.code != 0:
            V.violation(f"no-termination:model-case:{c['t']}:{c['W']}:{c['M']}", f"wrap case text widths {c['t']} at panel width "
                        f"{c['W']} limit {c['M']}: exit {r.code} timed out={r.timed_out}", {"case": c, "run": r.to_json()})
            continue
        want = [[x for x in row if x not in (9, 0)] for row in c["rows"]]
        wsym = [9 in row for row in c["rows"]]
        got = [t for t, w, tr in rows]
        gsym = [w for t, w, tr in rows]
        n = min(len(want), len(got))
        ok = len(want) == len(got) and want[:n - 1] == got[:n - 1] and wsym[:n - 1] == gsym[:n - 1]
        if ok and n and not rows[n - 1][2]:
            ok = got[n - 1] == want[n - 1]           # (a last row cut by the panel code - truncation mark - is not compared)
        if not ok:
            drift += 1
            if drift <= 3:
                V.drift.append(f"module=Wrap text {c['t']} W={c['W']} M={c['M']}: model rows {c['rows']} binary {rows}")
    return {"states": mc.distinct, "replayed": len([x for x in res if x]), "drift": drift, "regression": reg.violated}


def run(tier):
    t0 = time.time()
    V = core.Verdict(PID)
    rnd = random.Random(core.seed())
    wrapinfo = wrap_model_replay(V, tier)
    log(f"[{PID}] design level (Wrap): {wrapinfo['states']} cases hold Lossless/Fits/Symbols/LockStep/Terminates; "
        f"{wrapinfo['replayed']} replayed, {wrapinfo['drift']} differ from the model")
    jobs = []
    ncase = 700 if tier == "quick" else 9000
    for i in range(ncase):
        r2 = random.Random(core.seed() * 15485863 + i)
        W = r2.choice(WIDTHS_Q if tier == "quick" else list(range(16, 64)) + [80, 81, 100, 121, 160])
        limit = LIMITS[i % len(LIMITS)]
        maxlen = r2.choice([10, 40, 90])
        extra = []
        if i % 7 == 0:
            extra += ["--keep-plus-minus-markers"]
            W = max(W, 18)      # marker column + wrap symbol already fill a two-column panel
        if i % 5 == 0:
            extra += ["--wrap-right-percent", r2.choice(["1", "37", "80"])]
        if i % 13 == 3:
            # other single-column symbols (double-width ones are rejected by delta)
            extra += ["--wrap-left-symbol", ">", "--wrap-right-symbol", "<", "--wrap-right-prefix-symbol", "_"]
        if i % 11 == 0:
            # (the right format must begin with a decoration character: the parser finds the right panel there)
            extra += ["--line-numbers-left-format", "{nm:>2}|", "--line-numbers-right-format", ":{np:>2}|"]
        if i % 11 == 5 and W >= 30:
            # a double-width character in the number formats (FULLWIDTH VERTICAL LINE): two columns of gutter each
            extra += ["--line-numbers-left-format", "{nm:>2}\uff5c", "--line-numbers-right-format", ":{np:>2}\uff5c"]
        if i % 33 == 11:
            # lines beyond the default --max-line-length, with unlimited wrapping: nothing may be cut (the input limit is
            # switched off there)
            W, limit, maxlen, extra = r2.choice([120, 161]), -1, 3300, []
        jobs.append((i, W, limit, maxlen, extra))

    def one(job):
        i, W, limit, maxlen, extra = job
        r2 = random.Random(core.seed() * 15485863 + i)
        r2.random()
        # a two-column panel cannot hold a double-width character next to a wrap symbol: below width 18
        # (text width 3) the statement is only meaningful for narrow characters
        wmin = 20 if "--keep-plus-minus-markers" in extra else 18     # the marker column takes one more
        if i % 6 == 5 and W >= 24:
            data, left, right = make_block_case(r2, W)
        else:
          data, left, right = make_case(r2, maxlen if W >= wmin else min(maxlen, 12), shared=(i % 2 == 0),
                                      alpha=None if W >= wmin else NARROW_ALPHA, wide=W >= 40)
        args = gitskin.rs_args(W) + ["--side-by-side", "--wrap-max-lines", "unlimited" if limit < 0 else str(limit)] + extra
        return data, left, right, core.run_delta(args, data, timeout=15, mem_kb=2_000_000)

    res = core.pmap(one, jobs)
    events, hung = [], []
    for (i, W, limit, maxlen, extra), (data, left, right, r) in zip(jobs, res):
        if r.timed_out:
            hung.append(i)
            continue
        rows = []
        keep = "--keep-plus-minus-markers" in extra
        for b in r.out.split(b"\n")[:-1]:
            syms = ({"left": ">", "right": "<", "prefix": "_", "trunc": "→"} if "--wrap-left-symbol" in extra else None)
            p = gitskin.parse_sbs_row(b, syms)
            if p is None:
                continue
            lt, lw, lx, lra = p["lp"]
            rt, rw, rx, rra = p["rp"]
            if keep:
                # the marker column is re-inserted on the first row of a line, a blank on continuation rows
                # (not on a right-aligned last row, where the prefix symbol takes its place)
                if lt[:1] in ("-", " ") and not lra:
                    lt = lt[1:]
                if rt[:1] in ("+", " ") and not rra:
                    rt = rt[1:]
            rows.append({"ln": p["nm"], "lt": [ord(c) for c in lt], "lw": lw, "lx": lx, "lk": p["lk"],
                         "rn": p["np"], "rt": [ord(c) for c in rt], "rw": rw, "rx": rx, "rk": p["rk"],
                         "col": p["col"], "width": p["width"]})
        events.append({"run": i, "W": W, "limit": limit, "left": left, "right": right, "rows": rows,
                       "code": r.code})
    n = max(1, min(8, len(events) // 500 + 1))
    outs = core.pmap(lambda ch: tlc.validate_trace("Trace_Sbs", ch, heap="3g"), [events[i::n] for i in range(n)], jobs=n)
    failed = [f for fl, r in outs for f in fl]
    states = sum(r.distinct for fl, r in outs)
    log(f"[{PID}] {len(events)} rendered sections judged by TLC (Trace_Sbs), {len(failed)} rejected, {len(hung)} runs did not terminate")
    for f in failed:
        i, W, limit, maxlen, extra = jobs[f["run"]]
        data, left, right, r = res[f["run"]]
        V.violation(f"{f['why']}:{W}:{limit}:{i}", f"{f['why']} at width {W}, wrap-max-lines {limit} {' '.join(extra)} (case {i})",
                    {"W": W, "limit": limit, "extra": extra, "run": r.to_json(), "failure": f})
    for i in hung:
        _, W, limit, maxlen, extra = jobs[i]
        data, left, right, r = res[i]
        wide = any(ord(ch) > 0x2e80 for ch in data.decode("utf-8", "replace"))
        V.violation(f"no-termination:limit={limit}:wide={wide}:narrow={W <= 30}",
                    f"rendering did not terminate within 15 s at width {W}, wrap-max-lines {limit} (case {i})",
                    {"W": W, "limit": limit, "extra": extra, "run": r.to_json()})
    rc = V.finish()
    core.write_evidence(PID, tier, "model_checking", {
        "states": states + wrapinfo["states"], "transitions": states + wrapinfo["states"], "wrap_model": wrapinfo,
        "traces_validated_against_impl": len(events) + wrapinfo["replayed"], "evaluations": len(events),
        "distinct_nontrivial": len(jobs),
        "rule": "seeded sections of 1-2 hunks with up to 6 lines each over an alphabet with double-width, combining and tab characters, "
                "line lengths 0..90, similar (pairing) and dissimilar lines; widths from the narrowest that fits the gutters (even and "
                f"odd), wrap-max-lines in {LIMITS}, right-alignment thresholds, markers kept, custom number formats; every row is parsed "
                "into panels and TLC reassembles the lines of each panel and checks panels, geometry and losslessness",
        "widths": WIDTHS_Q if tier == "quick" else "20..63,80,81,100,121,160", "runs_not_terminating": len(hung),
        "samples": [{"W": e["W"], "limit": e["limit"], "rows": len(e["rows"]), "left_lines": len(e["left"])} for e in events[:3]],
        "exhaustive": False,
    }, time.time() - t0, len(V.violations),
        ["display widths come from the lexer's width table (East-Asian W/F = 2, combining = 0)",
         "empty lines are replaced by a one-character line: they are indistinguishable from filler rows",
         "line-fill-method ansi needs a tty and is not exercised in this round"])
    return rc


def replay(path):
    return core.generic_replay(path)
