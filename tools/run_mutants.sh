#!/bin/sh
# Run the checks against the seeded changes produced by the sub-agents (scratch worktree, see tools/mutant.py).
# usage: tools/run_mutants.sh "<id> <worktree-prop> <checks>" ...   or without arguments: the standard batch
cd /verif
if [ $# -gt 0 ]; then
  # the source of a seeded change is its directory under seeded/ (or a sub-agent's out directory when it exists)
  for x in "$@"; do set -- $x; src=seeded/$1; [ -d "${WT:-/nonexistent}-$2/out/m${1#*-m}" ] && src="$WT-$2/out/m${1#*-m}"; python3 tools/mutant.py $src $1 $2 $3; done
  exit 0
fi
python3 tools/mutant.py /tmp/wt-C10/out/m2 C10-m2 C10 C10
for p in C03 C04 C08 C12 C13 C15 C16 C17 C18 C19 C20; do
  for m in 1 2 3; do
    c=$p
    [ $p = C04 ] && c=C04,C09
    [ $p = C03 ] && c=C03,C17
    python3 tools/mutant.py /tmp/wt-$p/out/m$m $p-m$m $p $c
  done
done
for x in "C01-m1 C01 C01" "C05-m3 C05 C01,C05" "C02-m2 C02 C02" "C02-m3 C02 C02,C01" "C14-m3 C14 C14,C01" \
         "C05-m1 C05 C05" "C06-m1 C06 C06" "C06-m2 C06 C06" "C06-m3 C06 C06" "C07-m1 C07 C07" "C07-m2 C07 C07"; do
  set -- $x
  python3 tools/mutant.py /tmp/wt-$2/out/m${1#*-m} $1 $2 $3
done
