#!/usr/bin/env python3
"""Regenerates MANIFEST.json from the table below (single source of truth for the interface)."""
import json
import os
import subprocess

VERIF = os.path.dirname(os.path.dirname(os.path.abspath(__file__)))

# id -> (category, technique, level text, level note, design ref)
CLAIMED = {
    "C01": ("model_checking",
            "TLC: Impl_Stream => Obs_Stream on all Env_Git histories in bound; replay of TLC-enumerated histories and of the "
            "transition cover into the real binary; TLC trace validation against Obs_Stream",
            "Design level: TLC checks exhaustively that the implementation-shaped model renders every hunk line once, in order, "
            "in its section, for every input history the git grammar produces within the bound. Implementation level: every "
            "enumerated history and every edge (thorough: edge pair) of the abstract state graph is run through the binary built "
            "from /repo and the recorded rows are judged by TLC against the property-level spec; payload strings over a nasty "
            "alphabet are enumerated on a fixed skeleton.",
            "Trusted: TLC, the lexer/row parser (reserved 256-colour styles identify row kinds), the concretiser. Combined "
            "diffs and diff -u sources are covered by separate plans; arbitrary Unicode is covered by the payload alphabet only.",
            "5/C01"),
    "C04": ("model_checking",
            "TLC trace validation against Obs_Stream (raw rows carry the input line's bytes, in place) + TLC-judged rows=lines law on "
            "pure text streams in every mode; design-level check of Impl_Stream",
            "Every enumerated / transition-cover history that contains free text is replayed with seeded random free-text payloads "
            "(embedded SGR, marker-like text not at line start, CR, invalid UTF-8) and TLC requires each such line to appear as one "
            "row with identical bytes at its place among the rendered rows; pure text streams are run under nine modes and TLC "
            "requires output rows = input lines.",
            "Trusted: the list of construct-opening markers (read off the handler chain), the byte interner, the normalisation the "
            "statement permits (CR removal, U+FFFD replacement). Truncation beyond max-line-length is not exercised.",
            "5/C04"),
    "C10": ("model_checking",
            "TLC invariant Boundary on Impl_Stream (a diff line = end-of-input then fresh start, in every reachable state); replay of "
            "TLC-enumerated complete sections A, B, A.B with the concatenation law and run-twice equality judged by TLC (Trace_Rel)",
            "Design level: for every reachable state of the model, consuming a diff line writes exactly what end of input would have "
            "written and leaves the per-file state of a fresh start, which gives Run(A.B) = Run(A).Run(B) by induction. Implementation "
            "level: all (kind, last-line) classes of sections enumerated by TLC are paired in every order, plus random pairs/triples, "
            "in six modes; TLC checks rows(AB) = rows(A).rows(B), that two runs agree, and that --show-config is deterministic.",
            "Trusted: TLC, byte interning of rows. Submodule sections are not generated. Determinism is sampled (fresh process per run).",
            "5/C10"),
    "C14": ("model_checking",
            "TLC: Impl_Stream => Obs_Stream (header descriptors) on all histories in bound; replay of enumerated + transition-cover "
            "histories under path skins; TLC trace validation against Obs_Stream",
            "Every section kind (modified, added, empty, deleted, renamed, renamed+changed, copied, mode-only, mode+change, binary, "
            "new binary, bare) in every neighbourhood the abstract state graph distinguishes is replayed with plain, spaced, "
            "mnemonic-prefixed and git-quoted paths; TLC requires exactly one header row per section, placed after the previous "
            "section's rows and before the section's hunks, naming the right paths in order with the right label, mode/binary notes, "
            "and one hunk header per hunk carrying its fragment token and the hunk's own file.",
            "Trusted: reserved styles identify header rows; 'names a path' = git's path string occurs in the row. diff -u sources are "
            "not generated yet.",
            "5/C14"),
}

NOT_YET = "check not built yet in this round (see DESIGN.md section 9 for the build order)"


def main():
    props = [json.loads(l) for l in open(os.path.join(VERIF, "properties.jsonl"))]
    try:
        commits = subprocess.run(["git", "-C", "/repo", "log", "--format=%h %s", "--grep=^verif-hook"],
                                 capture_output=True, text=True).stdout.split("\n")
        commits = [c.split()[0] for c in commits if c.strip()]
    except Exception:
        commits = []
    checks, na = [], []
    for p in props:
        pid = p["id"]
        if pid in CLAIMED:
            cat, tech, text, note, ref = CLAIMED[pid]
            checks.append({
                "property_id": pid,
                "quick_cmd": f"./check {pid} --tier quick",
                "thorough_cmd": f"./check {pid} --tier thorough",
                "evidence_file": f"evidence/{pid}.json",
                "replay_cmd_template": f"./check {pid} --replay {{path}}",
                "engine": "tlc+replay",
                "level_claimed": {"category": cat, "text": text, "design_ref": "DESIGN.md " + ref},
                "level_note": note,
                "technique": tech,
            })
        else:
            na.append({"property_id": pid, "reason": NOT_YET})
    m = {
        "version": 1,
        "setup_cmd": "./setup.sh",
        "hooks": {
            "guard": "dandavison_delta_verif",
            "enable": "RUSTFLAGS='--cfg dandavison_delta_verif --check-cfg cfg(dandavison_delta_verif)' cargo build --offline "
                      "--manifest-path /repo/Cargo.toml --target-dir /verif/build/target (done by harness/core.py:build)",
            "baseline_off_cmd": "cd /repo && cargo test --workspace --no-fail-fast --offline",
            "source_commits": commits,
            "add_only": True,
        },
        "engines": [
            {"name": "tlc+replay", "path": "check",
             "serves_properties": [c["property_id"] for c in checks],
             "kind_free_text": "TLA+ specifications under spec/ checked by TLC (bounded exhaustive design-level check; behaviour "
                               "generation; trace validation as judge) bound to the delta binary built from /repo by the Python "
                               "harness under harness/"},
        ],
        "checks": checks,
        "not_applicable": na,
        "notes": "Verdicts come only from traces of the real binary rejected by the property-level TLA+ specs (or forbidden "
                 "crash/hang). Disagreement with the implementation-shaped model alone is reported as DRIFT (exit 0).",
    }
    with open(os.path.join(VERIF, "MANIFEST.json"), "w") as f:
        json.dump(m, f, indent=1)
    print(f"MANIFEST.json: {len(checks)} checks, {len(na)} not_applicable")


if __name__ == "__main__":
    main()
