#!/usr/bin/env python3
"""Regenerates MANIFEST.json from the table below (single source of truth for the interface)."""
import json
import os
import subprocess

VERIF = os.path.dirname(os.path.dirname(os.path.abspath(__file__)))

# id -> (category, technique, level text, level note, design ref)
CLAIMED = {
    "C01": ("model_checking",
            "TLC: Impl_Stream => Obs_Stream on all Env_Git histories in bound; replay of TLC-enumerated histories and of the "
            "transition cover into the real binary; TLC trace validation against Obs_Stream",
            "Design level: TLC checks exhaustively that the implementation-shaped model renders every hunk line once, in order, "
            "in its section, for every input history the git grammar produces within the bound. Implementation level: every "
            "enumerated history and every edge (thorough: edge pair) of the abstract state graph is run through the binary built "
            "from /repo and the recorded rows are judged by TLC against the property-level spec; payload strings over a nasty "
            "alphabet are enumerated on a fixed skeleton.",
            "Trusted: TLC, the lexer/row parser (reserved 256-colour styles identify row kinds), the concretiser. Combined "
            "diffs and diff -u sources are covered by separate plans; arbitrary Unicode is covered by the payload alphabet only.",
            "5/C01"),
}

NOT_YET = "check not built yet in this round (see DESIGN.md section 9 for the build order)"


def main():
    props = [json.loads(l) for l in open(os.path.join(VERIF, "properties.jsonl"))]
    try:
        commits = subprocess.run(["git", "-C", "/repo", "log", "--format=%h %s", "--grep=^verif-hook"],
                                 capture_output=True, text=True).stdout.split("\n")
        commits = [c.split()[0] for c in commits if c.strip()]
    except Exception:
        commits = []
    checks, na = [], []
    for p in props:
        pid = p["id"]
        if pid in CLAIMED:
            cat, tech, text, note, ref = CLAIMED[pid]
            checks.append({
                "property_id": pid,
                "quick_cmd": f"./check {pid} --tier quick",
                "thorough_cmd": f"./check {pid} --tier thorough",
                "evidence_file": f"evidence/{pid}.json",
                "replay_cmd_template": f"./check {pid} --replay {{path}}",
                "engine": "tlc+replay",
                "level_claimed": {"category": cat, "text": text, "design_ref": "DESIGN.md " + ref},
                "level_note": note,
                "technique": tech,
            })
        else:
            na.append({"property_id": pid, "reason": NOT_YET})
    m = {
        "version": 1,
        "setup_cmd": "./setup.sh",
        "hooks": {
            "guard": "dandavison_delta_verif",
            "enable": "RUSTFLAGS='--cfg dandavison_delta_verif --check-cfg cfg(dandavison_delta_verif)' cargo build --offline "
                      "--manifest-path /repo/Cargo.toml --target-dir /verif/build/target (done by harness/core.py:build)",
            "baseline_off_cmd": "cd /repo && cargo test --workspace --no-fail-fast --offline",
            "source_commits": commits,
            "add_only": True,
        },
        "engines": [
            {"name": "tlc+replay", "path": "check",
             "serves_properties": [c["property_id"] for c in checks],
             "kind_free_text": "TLA+ specifications under spec/ checked by TLC (bounded exhaustive design-level check; behaviour "
                               "generation; trace validation as judge) bound to the delta binary built from /repo by the Python "
                               "harness under harness/"},
        ],
        "checks": checks,
        "not_applicable": na,
        "notes": "Verdicts come only from traces of the real binary rejected by the property-level TLA+ specs (or forbidden "
                 "crash/hang). Disagreement with the implementation-shaped model alone is reported as DRIFT (exit 0).",
    }
    with open(os.path.join(VERIF, "MANIFEST.json"), "w") as f:
        json.dump(m, f, indent=1)
    print(f"MANIFEST.json: {len(checks)} checks, {len(na)} not_applicable")


if __name__ == "__main__":
    main()
