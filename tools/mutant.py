#!/usr/bin/env python3
"""tools/mutant.py <src_dir> <seeded_id> <property> <checks,comma> : confirm a seeded change and run checks against it.
src_dir holds patch.diff, demo.sh, notes.txt. The patch is applied to /repo, never committed, and undone afterwards."""
import json
import os
import shutil
import subprocess
import sys
import time

VERIF = os.path.dirname(os.path.dirname(os.path.abspath(__file__)))
# Work on a scratch worktree of /repo with its own build directory, so that /repo itself and the
# checks running against it are never disturbed.  (Equivalent to: git -C /repo apply; check; checkout.)
MUTREPO = os.environ.get("MUTREPO", "/tmp/mutrepo")
os.environ["VERIF_REPO"] = MUTREPO
os.environ["VERIF_OUT"] = os.environ.get("MUTOUT", "/tmp/mutout")
os.environ["VERIF_BUILD"] = os.environ.get("MUTBUILD", "/tmp/mutbuild")
sys.path.insert(0, VERIF)
from harness import core  # noqa


def sh(cmd, **kw):
    return subprocess.run(cmd, shell=True, capture_output=True, text=True, **kw)


def main():
    src, sid, prop, checks = sys.argv[1:5]
    checks = [c for c in checks.split(",") if c]
    dst = os.path.join(VERIF, "seeded", sid)
    os.makedirs(dst, exist_ok=True)
    for f in ("patch.diff", "demo.sh", "notes.txt"):
        if os.path.exists(os.path.join(src, f)) and os.path.abspath(src) != os.path.abspath(dst):
            shutil.copy(os.path.join(src, f), os.path.join(dst, f))
    patch = os.path.join(dst, "patch.diff")
    demo = os.path.join(dst, "demo.sh")
    if not os.path.isdir(MUTREPO):
        assert sh(f"git -C /repo worktree add --detach {MUTREPO} HEAD").returncode == 0
    sh(f"git -C {MUTREPO} checkout -q --detach $(git -C /repo rev-parse HEAD)")
    sh(f"git -C {MUTREPO} checkout -- .")
    meta = {"property": prop, "id": sid, "ran": []}
    fx = os.path.join(os.environ["VERIF_BUILD"], "fixtures")
    if not os.path.exists(fx):
        os.makedirs(os.environ["VERIF_BUILD"], exist_ok=True)
        os.symlink(os.path.join(VERIF, "build", "fixtures"), fx)
    core._built = False
    core.build()
    r0 = sh(f"bash {demo} {core.DELTA}")
    meta["demo_on_unchanged_tree"] = r0.returncode
    a = sh(f"git -C {MUTREPO} apply {patch}")
    if a.returncode != 0:
        meta["error"] = "patch does not apply: " + a.stderr[:300]
        json.dump(meta, open(os.path.join(dst, "meta.json"), "w"), indent=1)
        print(meta)
        return 1
    try:
        core._built = False
        core.build()
        r1 = sh(f"bash {demo} {core.DELTA}")
        meta["demo_with_change"] = r1.returncode
        meta["results"] = {}
        for c in checks:
            t0 = time.time()
            r = sh(f"./check {c} --tier quick", cwd=VERIF, env=dict(os.environ))
            lines = [l for l in r.stdout.splitlines() if l.startswith("VIOLATION") or l.startswith("  what") or "TOOL-ERROR" in l]
            meta["results"][c] = {"exit": r.returncode, "seconds": round(time.time() - t0), "first": lines[:4]}
            meta["ran"].append(f"./check {c} --tier quick")
            print(c, r.returncode, lines[:2], flush=True)
    finally:
        sh(f"git -C {MUTREPO} checkout -- .")
        core._built = False
        core.build()
    meta["detected_by"] = [c for c, v in meta.get("results", {}).items() if v["exit"] == 1]
    notes = os.path.join(dst, "notes.txt")
    if os.path.exists(notes):
        meta["needs"] = open(notes).read()[:1500]
    json.dump(meta, open(os.path.join(dst, "meta.json"), "w"), indent=1)
    print(json.dumps({k: meta[k] for k in ("demo_on_unchanged_tree", "demo_with_change", "detected_by")}))
    return 0


if __name__ == "__main__":
    sys.exit(main())
