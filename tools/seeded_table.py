#!/usr/bin/env python3
"""Regenerates seeded/README.md from the meta.json files written by tools/mutant.py."""
import glob
import json
import os

VERIF = os.path.dirname(os.path.dirname(os.path.abspath(__file__)))
rows = []
for f in sorted(glob.glob(os.path.join(VERIF, "seeded", "*", "meta.json"))):
    m = json.load(open(f))
    needs = (m.get("needs") or "").strip().split("\n")[0][:140]
    if m.get("obsolete"):
        rows.append((m["id"], m["property"], m.get("demo_on_unchanged_tree"), m.get("demo_with_change"), "obsolete: " + m["obsolete"], needs))
        continue
    res = ", ".join(f"{c}:{'DETECTED' if v['exit'] == 1 else 'missed' if v['exit'] == 0 else 'tool-error'}"
                    for c, v in m.get("results", {}).items())
    rows.append((m["id"], m["property"], m.get("demo_on_unchanged_tree"), m.get("demo_with_change"), res, needs))
with open(os.path.join(VERIF, "seeded", "README.md"), "w") as out:
    out.write("# Seeded changes and which checks catch them\n\n"
              "Each directory holds patch.diff, demo.sh (exit 0 on the unchanged tree, 1 with the change), notes.txt (what the\n"
              "change needs in order to manifest) and meta.json (what was run). Results are for the quick tier.\n\n"
              "| id | property | demo unchanged / changed | checks | first line of the sub-agent's notes |\n|---|---|---|---|---|\n")
    for r in rows:
        out.write(f"| {r[0]} | {r[1]} | {r[2]} / {r[3]} | {r[4]} | {r[5].replace('|', '/')} |\n")
    det = sum("DETECTED" in r[4] for r in rows)
    obs = sum(r[4].startswith("obsolete") for r in rows)
    out.write(f"\n{det} of {len(rows) - obs} live seeded changes are detected by at least one quick check; {obs} are obsolete "
              "(their patch or demonstration no longer applies to the repaired tree, see the row).\n")
    notes = os.path.join(VERIF, "seeded", "NOTES.md")
    if os.path.exists(notes):
        out.write("\n" + open(notes).read())
print(len(rows), "rows")
